//! C07 — reported link failures steer traffic away at once; paths recover later.

use std::{
    collections::{BTreeMap, HashMap},
    sync::OnceLock,
    time::{Duration, SystemTime},
};

use p_stack::{
    gens,
    sim::{Cfg, Element, IssueKindSpec},
    world::{self, Meta, PathInst, World, ia},
};
use proptest::prelude::*;
use scion_stack::verif::{FetchResult, Issue, PathSetDriver};
use sciparse::payload::scmp::model::{ScmpExternalInterfaceDown, ScmpInternalConnectivityDown};
use serde::{Deserialize, Serialize};
use vcore::{CheckResult, Ctx, Fail, Obs, Sub, ensure, no_panic};

fn world() -> &'static World {
    static W: OnceLock<World> = OnceLock::new();
    W.get_or_init(World::new)
}
/// fingerprint bytes -> pool route (identification of accessor rows only)
fn fp_map() -> &'static HashMap<Vec<u8>, usize> {
    static M: OnceLock<HashMap<Vec<u8>, usize>> = OnceLock::new();
    M.get_or_init(|| {
        let w = world();
        (0..world::POOL)
            .map(|r| {
                let p = w.build(&PathInst { route: r as u8, exp_s: 9_000, exp_unit: 1, min_seg: 0, meta: Meta::Full, meta_exp_skew: 0 });
                (p.fingerprint().as_ref().to_vec(), r)
            })
            .collect()
    })
}

// ------------------------------------------------------------------------------ case

const FACTORS: [f64; 6] = [0.0, 0.5, 1.0, 2.0, 7.0, 20.0];

#[derive(Clone, Copy, Debug, PartialEq, Eq, Serialize, Deserialize)]
struct PathDef {
    route: u8,
    /// lifetime in seconds counted from every fetch that delivers it
    life_s: u32,
}

#[derive(Clone, Copy, Debug, PartialEq, Eq, Serialize, Deserialize)]
enum Tgt {
    /// element of the active route at this AS position
    Active(u8),
    /// element of a cached, non-active route that the active route does not traverse
    Inactive(u8),
    /// 0: unknown AS, 1: unused interface id of a pool AS, 2: element of a pool route not cached
    Nothing(u8),
}

#[derive(Clone, Copy, Debug, PartialEq, Eq, Serialize, Deserialize)]
struct Rep {
    kind: IssueKindSpec,
    tgt: Tgt,
    pkt: u8,
}

#[derive(Clone, Debug, PartialEq, Eq, Serialize, Deserialize)]
enum Step {
    /// fetcher result from now on: the paths of the case selected by the mask, or a failure
    Serve { mask: u8, fail: Option<bool> },
    /// advance to the next maintenance instant and run it
    Tick,
    /// let FACTORS[i] half-lives pass (90 s reliability half-life, or 30 s cached-issue half-life)
    Wait { factor: u8, reliability: bool },
    Report(Rep),
    /// the report reaches the manager while the next fetch is in flight
    ReportDuringNextFetch(Rep),
    Send,
}

#[derive(Clone, Debug, Serialize, Deserialize)]
struct Case {
    /// refetch every 100 s with 5 s threshold instead of the defaults (30 min / 5 min)
    fast: bool,
    paths: Vec<PathDef>,
    /// a report (derived from pool route, position) that reached the manager `age` half-lives
    /// (30 s) before this pair's path set was created
    early: Option<(IssueKindSpec, u8, u8, u8)>,
    steps: Vec<Step>,
}

fn cfg_of(c: &Case) -> Cfg {
    // defaults of MultiPathManagerConfig (swap threshold 0.5, dedup 10 s, issue cache 100);
    // the idle period is raised so that long waits do not end the history
    let d = Cfg { idle_ms: 100_000_000_000, ..Cfg::defaults() };
    if c.fast { Cfg { refetch_ms: 100_000, min_delay_ms: 1_000, threshold_ms: 5_000, backoff: (1.0, 10.0, 2.0), ..d } } else { d }
}

// ------------------------------------------------------------------------------ model

const TOL: f64 = 1e-3;
const REL_HALF: f64 = 90.0;
const ISSUE_HALF: f64 = 30.0;
const SWAP_THR: f64 = 0.5;

fn clamp1(x: f64) -> f64 {
    x.clamp(-1.0, 1.0)
}

/// reliability score as documented: penalties add up, the sum decays with a 90 s half-life
#[derive(Clone, Copy, Debug)]
struct Rel {
    lo: f64,
    hi: f64,
    t: f64,
}
impl Rel {
    fn value(&self, now: f64) -> (f64, f64) {
        let d = 2f64.powf(-((now - self.t).max(0.0)) / REL_HALF);
        (clamp1(self.lo * d), clamp1(self.hi * d))
    }
    fn update(&mut self, p: f64, now: f64) {
        let (lo, hi) = self.value(now);
        self.lo = (lo + p).clamp(-1000.0, 1000.0);
        self.hi = (hi + p).clamp(-1000.0, 1000.0);
        self.t = now;
    }
}

#[derive(Clone, Debug)]
struct MEntry {
    exp_s: i64,
    rel: Rel,
}

#[derive(Clone, Copy, Debug, PartialEq, Eq, Hash, PartialOrd, Ord)]
struct IssueKey {
    kind: u8,
    el: (u16, u64, u16, u16),
    pkt: u8,
}

#[derive(Clone, Copy, Debug)]
struct MIssue {
    el: Element,
    penalty: f64,
    ts: f64,
}

struct Model {
    cache: BTreeMap<usize, MEntry>,
    issues: BTreeMap<IssueKey, MIssue>,
    failed: Vec<Element>,
    thr_s: f64,
}

fn penalty_of(kind: IssueKindSpec) -> f64 {
    match kind {
        IssueKindSpec::ExtDown | IssueKindSpec::IntDown => -1.0,
        IssueKindSpec::FirstHop => -0.4,
    }
}

impl Model {
    fn len_score(route: usize) -> f64 {
        0.1 * (1.0 - world().routes[route].hop_fields() as f64 / 50.0)
    }
    fn score(&self, route: usize, now: f64) -> (f64, f64) {
        let (lo, hi) = self.cache[&route].rel.value(now);
        (lo + Self::len_score(route), hi + Self::len_score(route))
    }
    fn valid(&self, route: usize, now: f64) -> bool {
        self.cache[&route].exp_s as f64 - now > self.thr_s
    }
    /// accepted (not a duplicate inside the 10 s window)?
    fn accept_issue(&mut self, key: IssueKey, el: Element, penalty: f64, ts: f64) -> bool {
        if let Some(old) = self.issues.get(&key) {
            if (ts - old.ts).max(0.0) < 10.0 {
                return false;
            }
        }
        self.issues.insert(key, MIssue { el, penalty, ts });
        true
    }
    fn apply_to_cached(&mut self, el: Element, penalty: f64, now: f64) -> Vec<usize> {
        let w = world();
        let mut hit = vec![];
        for (r, e) in self.cache.iter_mut() {
            if el.on_route(&w.routes[*r].hops) {
                e.rel.update(penalty, now);
                hit.push(*r);
            }
        }
        hit
    }
    /// cached issues (30 s half-life) applied to a freshly fetched path, in every possible order
    fn fresh_rel(&self, route: usize, now: f64) -> Rel {
        let w = world();
        let ps: Vec<f64> = self
            .issues
            .values()
            .filter(|i| i.el.on_route(&w.routes[route].hops))
            .map(|i| clamp1(i.penalty * 2f64.powf(-((now - i.ts).max(0.0)) / ISSUE_HALF)))
            .collect();
        if ps.is_empty() {
            return Rel { lo: 0.0, hi: 0.0, t: now };
        }
        let mut lo = f64::INFINITY;
        let mut hi = f64::NEG_INFINITY;
        if ps.len() <= 6 {
            let mut idx: Vec<usize> = (0..ps.len()).collect();
            permute(&mut idx, 0, &mut |order: &[usize]| {
                let mut r = Rel { lo: 0.0, hi: 0.0, t: now };
                for &k in order {
                    r.update(ps[k], now);
                }
                lo = lo.min(r.lo);
                hi = hi.max(r.hi);
            });
        } else {
            // too many orders: bound by "no intermediate clamp" and "clamp after every step"
            lo = ps.iter().sum::<f64>();
            hi = (-1.0 + ps.iter().cloned().fold(f64::NEG_INFINITY, f64::max)).max(lo);
        }
        Rel { lo, hi, t: now }
    }
    /// the documented cache maintenance of one fetch (no truncation: at most 6 paths, max 50)
    fn on_fetch(&mut self, delivered: &[(usize, i64)], now: f64) {
        for (r, exp) in delivered {
            if let Some(e) = self.cache.get_mut(r) {
                e.exp_s = *exp;
            }
        }
        self.cache.retain(|_, e| (e.exp_s as f64) > now);
        for (r, exp) in delivered {
            if !self.cache.contains_key(r) {
                let rel = self.fresh_rel(*r, now);
                self.cache.insert(*r, MEntry { exp_s: *exp, rel });
            }
        }
    }
}

fn permute(idx: &mut Vec<usize>, k: usize, visit: &mut impl FnMut(&[usize])) {
    if k == idx.len() {
        visit(idx);
        return;
    }
    for i in k..idx.len() {
        idx.swap(k, i);
        permute(idx, k + 1, visit);
        idx.swap(k, i);
    }
}

// ------------------------------------------------------------------------------ interpreter

fn el_key(kind: IssueKindSpec, el: Element, pkt: u8) -> IssueKey {
    let k = match kind {
        IssueKindSpec::ExtDown => 0,
        IssueKindSpec::IntDown => 1,
        IssueKindSpec::FirstHop => 2,
    };
    let e = match el {
        Element::Egress { isd, asn, ifid } | Element::FirstHop { isd, asn, ifid } => (isd, asn, 0, ifid),
        Element::Cross { isd, asn, ing, eg } => (isd, asn, ing, eg),
    };
    // the first-hop issue carries no offending packet: its dedup id ignores `pkt`
    IssueKey { kind: k, el: e, pkt: if k == 2 { 0 } else { pkt } }
}

fn issue_for(kind: IssueKindSpec, el: Element, pkt: u8) -> Issue {
    // the dedup id of an SCMP issue covers the LENGTH of the offending packet only
    let pktb = vec![0x07; 2 + pkt as usize];
    match el {
        Element::Egress { isd, asn, ifid } => Issue::from_scmp(ScmpExternalInterfaceDown::new(ia((isd, asn)), ifid, pktb).into()),
        Element::Cross { isd, asn, ing, eg } => Issue::from_scmp(ScmpInternalConnectivityDown::new(ia((isd, asn)), ing, eg, pktb).into()),
        Element::FirstHop { isd, asn, ifid } => {
            let _ = kind;
            Issue::first_hop_unreachable(ia((isd, asn)), ifid)
        }
    }
}

/// all elements of `kind` on a route, by AS position
fn elements_of(route: usize, kind: IssueKindSpec) -> Vec<Element> {
    let hops = &world().routes[route].hops;
    let n = hops.len();
    match kind {
        IssueKindSpec::ExtDown => (0..n - 1).map(|i| Element::Egress { isd: hops[i].isd, asn: hops[i].asn, ifid: hops[i].eg }).collect(),
        IssueKindSpec::IntDown => (1..n - 1).map(|i| Element::Cross { isd: hops[i].isd, asn: hops[i].asn, ing: hops[i].ing, eg: hops[i].eg }).collect(),
        IssueKindSpec::FirstHop => vec![Element::FirstHop { isd: hops[0].isd, asn: hops[0].asn, ifid: hops[0].eg }],
    }
}

struct Run<'a> {
    case: &'a Case,
    cfg: Cfg,
    drv: PathSetDriver,
    now: SystemTime,
    m: Model,
    serve: (u8, Option<bool>),
    // stats
    evals: u64,
    failovers_checked: u64,
    nomatch_checked: u64,
    decisions_checked: u64,
    recovered: u64,
    labels: Vec<&'static str>,
    deferred: Vec<Fail>,
}

fn secs(t: SystemTime) -> f64 {
    let base = world::at(0);
    match t.duration_since(base) {
        Ok(d) => d.as_secs_f64(),
        Err(e) => -e.duration().as_secs_f64(),
    }
}

impl<'a> Run<'a> {
    fn active_route(&self) -> Option<usize> {
        self.drv.active_fingerprint().map(|fp| fp_map().get(fp.as_ref()).copied().unwrap_or(usize::MAX))
    }
    fn snapshot(&self) -> Vec<(usize, f32, f32)> {
        self.drv.cached_paths(self.now).iter().map(|c| (fp_map().get(c.fingerprint.as_ref()).copied().unwrap_or(usize::MAX), c.reliability, c.score)).collect()
    }

    /// model vs manager: cache membership and decayed reliabilities
    fn check_model_sync(&mut self, what: &str) -> CheckResult {
        self.evals += 1;
        let now = secs(self.now);
        let snap = self.snapshot();
        let mut got: Vec<usize> = snap.iter().map(|s| s.0).collect();
        got.sort();
        let want: Vec<usize> = self.m.cache.keys().copied().collect();
        ensure!(got == want, "cache-membership-differs-from-model", "after {what} at {now:.3}s the manager caches routes {got:?}, expected {want:?} (expired paths leave at a fetch, everything fetched stays)");
        for (r, rel, _) in &snap {
            let (lo, hi) = self.m.cache[r].rel.value(now);
            ensure!((*rel as f64) >= lo - TOL && (*rel as f64) <= hi + TOL, "reliability-differs-from-decay-model",
                "after {what} at {now:.3}s route {r} has reliability {rel}, the decay model gives [{lo:.5}, {hi:.5}]");
        }
        Ok(())
    }

    /// decision rule at a decision instant (a0 = active before, a1 = active after)
    fn check_decision(&mut self, a0: Option<usize>, a1: Option<usize>, what: &str) -> CheckResult {
        self.evals += 1;
        self.decisions_checked += 1;
        let now = secs(self.now);
        let w = world();
        let valid: Vec<usize> = self.m.cache.keys().copied().filter(|r| self.m.valid(*r, now)).collect();
        if valid.is_empty() {
            return Ok(());
        }
        let best_lo = valid.iter().map(|r| self.m.score(*r, now).0).fold(f64::NEG_INFINITY, f64::max);
        let a0_state = match a0 {
            Some(r) if self.m.cache.contains_key(&r) => {
                if self.m.valid(r, now) { 2 } else { 1 }
            }
            _ => 0, // none, or expired and dropped
        };
        let on_failed = |r: usize| self.m.failed.iter().any(|el| el.on_route(&w.routes[r].hops));
        if a0_state == 2 {
            let a0r = a0.unwrap();
            let gap_lo = best_lo - self.m.score(a0r, now).1;
            if gap_lo > SWAP_THR + TOL {
                ensure!(a1 != a0, "stale-active-despite-score-gap",
                    "{what} at {now:.3}s: active route {a0r} scores {:?}, best valid cached scores >= {best_lo:.4} (gap {gap_lo:.4} > threshold 0.5) but the active path was kept", self.m.score(a0r, now));
            } else {
                return Ok(()); // may stay; nothing is demanded about a voluntary change
            }
        }
        // a replacement had to happen (no active / expired / near expiry / gap): must be (near) best
        let Some(a1r) = a1 else {
            return Err(Fail::new("no-active-path-though-valid-cached", format!("{what} at {now:.3}s: valid cached routes {valid:?} but the active slot is empty")));
        };
        if a0_state == 1 && a1 == a0 {
            return Err(Fail::new("near-expiry-active-not-replaced", format!("{what} at {now:.3}s: active route {a1r} is within the expiry threshold and valid routes {valid:?} are cached, but it was kept")));
        }
        if !self.m.cache.contains_key(&a1r) {
            return Err(Fail::new("active-path-not-in-cache", format!("{what}: active route {a1r} is not cached")));
        }
        let s1 = self.m.score(a1r, now);
        if s1.1 < best_lo - TOL {
            let sig = if on_failed(a1r) { "returned-to-failed-element" } else { "replacement-not-best" };
            return Err(Fail::new(sig, format!(
                "{what} at {now:.3}s: the active path was replaced by route {a1r} scoring {s1:?} although a valid cached route scores {best_lo:.4} (scores: {:?})",
                valid.iter().map(|r| (*r, self.m.score(*r, now))).collect::<Vec<_>>())));
        }
        if on_failed(a1r) && Some(a1r) != a0 {
            self.recovered += 1;
        }
        Ok(())
    }

    fn resolve(&self, rep: &Rep) -> Element {
        let w = world();
        let active = self.active_route().filter(|r| *r < world::POOL);
        let cached: Vec<usize> = self.m.cache.keys().copied().collect();
        let unknown_as = (3u16, 0xff00_0000_0999u64);
        let nothing = |variant: u8| -> Element {
            let base = active.or(cached.first().copied()).unwrap_or(0);
            let els = elements_of(base, rep.kind);
            let pick = els.get(rep.pkt as usize % els.len().max(1)).copied();
            match (variant % 3, pick) {
                (0, _) | (_, None) => match rep.kind {
                    IssueKindSpec::ExtDown => Element::Egress { isd: unknown_as.0, asn: unknown_as.1, ifid: 1 },
                    IssueKindSpec::IntDown => Element::Cross { isd: unknown_as.0, asn: unknown_as.1, ing: 1, eg: 2 },
                    IssueKindSpec::FirstHop => Element::FirstHop { isd: unknown_as.0, asn: unknown_as.1, ifid: 1 },
                },
                (1, Some(Element::Egress { isd, asn, .. })) => Element::Egress { isd, asn, ifid: 0x7777 },
                (1, Some(Element::Cross { isd, asn, eg, .. })) => Element::Cross { isd, asn, ing: 0x7776, eg },
                (1, Some(Element::FirstHop { isd, asn, .. })) => Element::FirstHop { isd, asn, ifid: 0x7777 },
                (_, Some(_)) => {
                    // an element of some pool route that no cached route traverses
                    for r in 0..world::POOL {
                        for el in elements_of(r, rep.kind) {
                            if !cached.iter().any(|c| el.on_route(&w.routes[*c].hops)) {
                                return el;
                            }
                        }
                    }
                    Element::Egress { isd: unknown_as.0, asn: unknown_as.1, ifid: 9 }
                }
            }
        };
        match rep.tgt {
            Tgt::Active(pos) => match active {
                Some(a) => {
                    let els = elements_of(a, rep.kind);
                    if els.is_empty() {
                        // no transit AS on the active route: use its first-hop egress instead
                        elements_of(a, IssueKindSpec::ExtDown)[0]
                    } else {
                        els[(pos as usize).min(els.len() - 1)]
                    }
                }
                None => nothing(0),
            },
            Tgt::Inactive(which) => {
                let others: Vec<usize> = cached.iter().copied().filter(|r| Some(*r) != active).collect();
                for k in 0..others.len() {
                    let r = others[(k + which as usize) % others.len()];
                    for el in elements_of(r, rep.kind) {
                        if active.map(|a| !el.on_route(&w.routes[a].hops)).unwrap_or(true) {
                            return el;
                        }
                    }
                }
                nothing(2)
            }
            Tgt::Nothing(v) => nothing(v),
        }
    }

    fn kind_of(el: Element, kind: IssueKindSpec) -> IssueKindSpec {
        match el {
            Element::Egress { .. } => IssueKindSpec::ExtDown,
            Element::Cross { .. } => IssueKindSpec::IntDown,
            Element::FirstHop { .. } => {
                let _ = kind;
                IssueKindSpec::FirstHop
            }
        }
    }

    fn report(&mut self, rep: &Rep) -> CheckResult {
        let w = world();
        let el = self.resolve(rep);
        let kind = Self::kind_of(el, rep.kind);
        let now_s = secs(self.now);
        let a0 = self.active_route();
        let before = self.snapshot();
        let hits: Vec<usize> = self.m.cache.keys().copied().filter(|r| el.on_route(&w.routes[*r].hops)).collect();
        let issue = issue_for(kind, el, rep.pkt);
        let now = self.now;
        no_panic("report_path_issue/handle_issue_rx", || self.drv.report_issue(now, now, issue))?;
        ensure!(self.drv.exited().is_none(), "worker-exited-on-issue", "the path set worker exited while handling an issue");
        let accepted = self.m.accept_issue(el_key(kind, el, rep.pkt), el, penalty_of(kind), now_s);
        let a1 = self.active_route();
        let after = self.snapshot();
        self.evals += 1;
        if !accepted {
            self.labels.push("report-deduplicated");
            return self.check_model_sync("a deduplicated report");
        }
        if hits.is_empty() {
            // (4) a report that matches no cached path changes nothing
            self.nomatch_checked += 1;
            self.labels.push("report-matches-nothing");
            ensure!(a1 == a0, "unrelated-report-changed-active-path", "report {el:?} matches no cached route but the active route went {a0:?} -> {a1:?}");
            let mut b = before.clone();
            let mut a = after.clone();
            b.sort_by(|x, y| x.0.cmp(&y.0));
            a.sort_by(|x, y| x.0.cmp(&y.0));
            ensure!(a == b, "unrelated-report-changed-scores", "report {el:?} matches no cached route but (route, reliability, score) went {b:?} -> {a:?}");
            return self.check_model_sync("an unrelated report");
        }
        self.m.apply_to_cached(el, penalty_of(kind), now_s);
        let active_hit = a0.map(|a| hits.contains(&a)).unwrap_or(false);
        self.labels.push(if active_hit { "report-hits-active" } else { "report-hits-inactive-only" });
        if active_hit {
            self.m.failed.push(el);
        }
        self.check_model_sync("a report")?;
        if !active_hit {
            // only other paths lost score: the active path must not move onto the failed element
            if let (Some(x), Some(y)) = (a0, a1) {
                ensure!(x == y || !hits.contains(&y), "moved-onto-just-failed-element", "report {el:?} hit inactive routes {hits:?}; active went {x} -> {y}");
            }
            return Ok(());
        }
        // (1) failover at once
        let a0r = a0.unwrap();
        let clean_alt: Vec<usize> = self
            .m
            .cache
            .keys()
            .copied()
            .filter(|r| !hits.contains(r) && self.m.valid(*r, now_s) && self.m.cache[r].rel.value(now_s).0 > -0.05)
            .collect();
        let kind_s = match kind {
            IssueKindSpec::ExtDown => "scmp-external-interface-down",
            IssueKindSpec::IntDown => "scmp-internal-connectivity-down",
            IssueKindSpec::FirstHop => "first-hop-send-failure",
        };
        if !clean_alt.is_empty() {
            self.failovers_checked += 1;
            self.labels.push("failover-required");
            let pos = w.routes[a0r].hops.iter().position(|h| match el {
                Element::Egress { asn, .. } | Element::Cross { asn, .. } | Element::FirstHop { asn, .. } => h.asn == asn,
            });
            self.labels.push(match pos {
                Some(0) => "failed-element:first-hop",
                Some(p) if p + 2 == w.routes[a0r].hops.len() => "failed-element:last-link",
                _ => "failed-element:transit",
            });
            let still = a1.map(|r| r < world::POOL && el.on_route(&w.routes[r].hops)).unwrap_or(false);
            if still || a1.is_none() {
                let f = Fail::new(format!("no-failover:{kind_s}"), format!(
                    "at {now_s:.3}s report {el:?} hit the active route {a0r}; valid unpenalised cached routes {clean_alt:?} avoid it, yet the next send gets route {a1:?} (reliabilities now {:?})",
                    after));
                // if the documented decision rule itself was followed (penalty below the swap
                // threshold) harness and manager stay in step: note the violation, go on
                return match self.check_decision(a0, a1, "report on active path") {
                    Ok(()) => {
                        self.defer(f);
                        Ok(())
                    }
                    Err(_) => Err(f),
                };
            }
        } else {
            self.labels.push("active-hit-no-clean-alternative");
        }
        self.check_decision(a0, a1, "report on active path")
    }

    fn defer(&mut self, f: Fail) {
        if !self.deferred.iter().any(|d| d.sig == f.sig) {
            self.deferred.push(f);
        }
    }

    /// One maintenance tick. `pending` reports are delivered during the fetch of this tick; if
    /// the tick does not fetch (idle check, replacement of an expired active path) they stay
    /// pending for the next one.
    fn tick(&mut self, pending: &mut Vec<Rep>) -> CheckResult {
        let w = world();
        let due = self.now + self.drv.next_maintain(self.now);
        self.now = due;
        let during: Vec<Rep> = if due >= self.drv.next_refetch() { std::mem::take(pending) } else { vec![] };
        let now_s = secs(due);
        let whole = now_s.floor() as i64;
        let (mask, fail) = self.serve;
        let delivered: Vec<(usize, i64)> = match fail {
            Some(_) => vec![],
            None => self.case.paths.iter().enumerate().filter(|(i, _)| mask >> i & 1 == 1).map(|(_, p)| (p.route as usize, whole + p.life_s as i64)).collect(),
        };
        let result = match fail {
            Some(true) => FetchResult::Error("verif".into()),
            Some(false) => FetchResult::NoPathsFound,
            None => FetchResult::Paths(
                delivered.iter().map(|(r, e)| w.build(&PathInst { route: *r as u8, exp_s: *e as u32, exp_unit: 255, min_seg: 0, meta: Meta::Full, meta_exp_skew: 0 })).collect(),
            ),
        };
        self.drv.set_fetch_result(result);
        // reports that arrive while the fetch is in flight
        let mut during_els = vec![];
        for rep in &during {
            let el = self.resolve(rep);
            let kind = Self::kind_of(el, rep.kind);
            self.drv.report_during_next_fetch(due, issue_for(kind, el, rep.pkt));
            during_els.push((el, kind, rep.pkt));
        }
        let a0 = self.active_route();
        let before_req = self.drv.fetch_requests();
        let reason = no_panic("PathSet::maintain", || self.drv.maintain(due))?;
        ensure!(reason.is_none(), "worker-exited", "maintain returned {reason:?}");
        let fetched = self.drv.fetch_requests() > before_req;
        if !fetched {
            // idle check tick only
            return Ok(());
        }
        // ---- model: issues reported during the fetch are in the issue cache before the new
        // paths are scored, and hit every cached path exactly once
        let mut accepted = vec![];
        for (el, kind, pkt) in &during_els {
            if self.m.accept_issue(el_key(*kind, *el, *pkt), *el, penalty_of(*kind), now_s) {
                accepted.push((*el, *kind));
            }
        }
        let existing: Vec<usize> = self.m.cache.keys().copied().collect();
        self.m.on_fetch(&delivered, now_s);
        for (el, kind) in &accepted {
            let p = penalty_of(*kind);
            for (r, e) in self.m.cache.iter_mut() {
                if existing.contains(r) && el.on_route(&w.routes[*r].hops) {
                    e.rel.update(p, now_s);
                }
            }
        }
        self.check_model_sync("a fetch")?;
        let a1 = self.active_route();
        if during_els.is_empty() {
            self.check_decision(a0, a1, "fetch")?;
        } else {
            self.labels.push("report-during-fetch");
            // final state only: traffic must not sit on an element reported during the fetch
            for (el, kind) in &accepted {
                let Some(a) = a1.filter(|r| *r < world::POOL) else { continue };
                if !el.on_route(&w.routes[a].hops) {
                    continue;
                }
                let clean: Vec<usize> = self.m.cache.keys().copied().filter(|r| !el.on_route(&w.routes[*r].hops) && self.m.valid(*r, now_s) && self.m.cache[r].rel.value(now_s).0 > -0.05).collect();
                if !clean.is_empty() {
                    self.failovers_checked += 1;
                    let kind_s = match kind {
                        IssueKindSpec::ExtDown => "scmp-external-interface-down",
                        IssueKindSpec::IntDown => "scmp-internal-connectivity-down",
                        IssueKindSpec::FirstHop => "first-hop-send-failure",
                    };
                    let f = Fail::new(format!("no-failover:during-fetch:{kind_s}"), format!(
                        "report {el:?} arrived during the fetch at {now_s:.3}s; afterwards the active route {a} still traverses it although valid unpenalised routes {clean:?} avoid it"));
                    if *kind == IssueKindSpec::FirstHop {
                        self.defer(f);
                    } else {
                        return Err(f);
                    }
                }
            }
        }
        Ok(())
    }

    fn send(&mut self) -> CheckResult {
        self.evals += 1;
        let w = world();
        let now_ms = (secs(self.now) * 1000.0) as i64;
        let now = self.now;
        let slot = self.drv.try_active_path();
        if let Some((p, _)) = &slot {
            let seen = w.see(p).map_err(|e| Fail::new("returned-path-undecodable", e))?;
            if seen.expiry_ms <= now_ms {
                // liveness at hand-out is C06's business
                self.labels.push("slot-holds-expired-path(C06)");
                return Ok(());
            }
        }
        let cp = no_panic("MultiPathManager::cached_path", || self.drv.cached_path(now))?;
        match slot {
            Some((p, _)) => {
                ensure!(cp.as_ref() == Some(&p), "read-apis-disagree:cached_path", "cached_path differs from the live path in the active slot");
                Ok(())
            }
            None => {
                ensure!(cp.is_none(), "read-apis-disagree:cached_path", "active slot empty but cached_path returned a path");
                Ok(())
            }
        }
    }
}

fn check(case: &Case, obs: &mut Obs) -> CheckResult {
    p_stack::dev_filter(check_inner(case, obs))
}

fn check_inner(case: &Case, obs: &mut Obs) -> CheckResult {
    let cfg = cfg_of(case);
    let strategy = scion_stack::path::PathStrategy::default();
    let t0 = world::at(0);
    let drv = no_panic("PathSetDriver::new", || PathSetDriver::new(cfg.to_verif(), strategy, world::src_ia(), world::dst_ia(), t0))?
        .map_err(|e| Fail::new("config-rejected-by-validate", format!("{e}")))?;
    let mut run = Run {
        case,
        cfg,
        drv,
        now: t0,
        m: Model { cache: BTreeMap::new(), issues: BTreeMap::new(), failed: vec![], thr_s: cfg.threshold_ms as f64 / 1000.0 },
        serve: (0xff, None),
        evals: 0,
        failovers_checked: 0,
        nomatch_checked: 0,
        decisions_checked: 0,
        recovered: 0,
        labels: vec![],
        deferred: vec![],
    };
    let _ = run.cfg;
    // a report that reached the (global) manager before this pair was ever used
    if let Some((kind, route, pos, age)) = case.early {
        let els = elements_of(route as usize % world::POOL, kind);
        if !els.is_empty() {
            let el = els[(pos as usize).min(els.len() - 1)];
            let age_s = FACTORS[age as usize % FACTORS.len()] * ISSUE_HALF;
            let ts = t0 - Duration::from_secs_f64(age_s);
            no_panic("report_path_issue", || run.drv.report_issue(ts, t0, issue_for(kind, el, 9)))?;
            run.m.accept_issue(el_key(kind, el, 9), el, penalty_of(kind), -age_s);
            run.labels.push("report-before-first-fetch");
        }
    }
    let mut pending_during: Vec<Rep> = vec![];
    for st in &case.steps {
        match st {
            Step::Serve { mask, fail } => run.serve = (*mask, *fail),
            Step::Tick => {
                run.tick(&mut pending_during)?;
            }
            Step::Wait { factor, reliability } => {
                let s = FACTORS[*factor as usize % FACTORS.len()] * if *reliability { REL_HALF } else { ISSUE_HALF };
                let target = run.now + Duration::from_secs_f64(s);
                // maintenance falls due inside the wait
                let mut guard = 0;
                while run.now + run.drv.next_maintain(run.now) <= target {
                    run.tick(&mut pending_during)?;
                    guard += 1;
                    if guard > 10_000 {
                        return Err(Fail::new("harness:too-many-ticks", "wait loop"));
                    }
                }
                run.now = target;
                if s > 0.0 {
                    run.labels.push(match *factor as usize % FACTORS.len() {
                        1 => "elapsed:half",
                        2 => "elapsed:1",
                        3 => "elapsed:2",
                        4 => "elapsed:7",
                        _ => "elapsed:20",
                    });
                }
            }
            Step::Report(rep) => run.report(rep)?,
            Step::ReportDuringNextFetch(rep) => pending_during.push(*rep),
            Step::Send => run.send()?,
        }
    }
    obs.evals(run.evals.max(1));
    for l in &run.labels {
        obs.label(*l);
    }
    obs.label(format!("paths={}", case.paths.len()));
    if run.recovered > 0 {
        obs.label("previously-failed-path-chosen-again");
    }
    if run.nomatch_checked > 0 {
        obs.label("nomatch-checked");
    }
    if run.failovers_checked > 0 {
        obs.label("nontrivial");
        obs.nontrivial(&serde_json::to_string(case).unwrap_or_default());
    }
    // a violation noted on the way (history went on): report an unlisted one first
    if !run.deferred.is_empty() {
        obs.label("history-continued-past-a-violation");
        let known = p_stack::known_open("C07");
        let pos = run.deferred.iter().position(|d| !known.iter().any(|k| p_stack::sig_matches(k, &d.sig))).unwrap_or(0);
        return Err(run.deferred.swap_remove(pos));
    }
    Ok(())
}

// ------------------------------------------------------------------------------ generators

/// path sets with controlled sharing (see world::routes)
fn families() -> Vec<Vec<u8>> {
    vec![
        vec![0, 1],          // shared first hop S#1, different egress at A
        vec![0, 1, 8, 2],    // three on S#1 + a disjoint one
        vec![1, 8],          // shared first hop and shared transit pair A(1,3), C same ingress other egress
        vec![0, 4, 9],       // shared transit AS A, same egress 2, different ingress; shared last link
        vec![0, 4, 9, 2],    // ... plus a disjoint equal-length one
        vec![1, 3, 11],      // transit C same egress different ingress; shared last link C#2->D#2
        vec![7, 8],          // long paths sharing E(1,2) and the last link
        vec![0, 2, 11],      // equal lengths, fully disjoint (ranking ties)
        vec![6, 0, 2],       // direct path + two longer
        vec![2, 5, 10, 3],   // last link B#2->D#3 shared by three
        vec![0, 1, 2, 3, 4, 5],
        vec![6, 7],          // shortest and longest
    ]
}

fn paths_strategy() -> impl Strategy<Value = Vec<PathDef>> {
    let fam = prop_oneof![
        4 => gens::pick(families()),
        1 => prop::collection::btree_set(0u8..world::POOL as u8, 2..=6).prop_map(|s| s.into_iter().collect::<Vec<_>>()),
    ];
    (fam, prop::collection::vec(prop_oneof![6 => Just(80_000u32), 1 => Just(400), 1 => Just(700), 1 => Just(2_500)], 6), any::<u16>()).prop_map(|(routes, lifes, rot)| {
        let n = routes.len();
        let k = vcore::idx(rot, n);
        (0..n).map(|i| PathDef { route: routes[(i + k) % n], life_s: lifes[i] }).collect()
    })
}

fn rep_strategy() -> impl Strategy<Value = Rep> {
    (
        prop_oneof![3 => Just(IssueKindSpec::ExtDown), 2 => Just(IssueKindSpec::IntDown), 2 => Just(IssueKindSpec::FirstHop)],
        prop_oneof![6 => (0u8..4).prop_map(Tgt::Active), 2 => (0u8..4).prop_map(Tgt::Inactive), 2 => (0u8..3).prop_map(Tgt::Nothing)],
        0u8..3,
    )
        .prop_map(|(kind, tgt, pkt)| Rep { kind, tgt, pkt })
}

fn step_strategy() -> impl Strategy<Value = Step> {
    prop_oneof![
        2 => (any::<u8>(), prop_oneof![8 => Just(None), 1 => Just(Some(true)), 1 => Just(Some(false))]).prop_map(|(mask, fail)| Step::Serve { mask, fail }),
        3 => Just(Step::Tick),
        4 => (0u8..6, any::<bool>()).prop_map(|(factor, reliability)| Step::Wait { factor, reliability }),
        6 => rep_strategy().prop_map(Step::Report),
        1 => rep_strategy().prop_map(Step::ReportDuringNextFetch),
        3 => Just(Step::Send),
    ]
}

fn case_strategy(max_steps: usize) -> impl Strategy<Value = Case> {
    (
        any::<bool>(),
        paths_strategy(),
        prop::option::weighted(0.25, (prop_oneof![Just(IssueKindSpec::ExtDown), Just(IssueKindSpec::IntDown), Just(IssueKindSpec::FirstHop)], 0u8..12, 0u8..4, 0u8..6)),
        prop::collection::vec(step_strategy(), 2..=max_steps),
    )
        .prop_map(|(fast, paths, early, tail)| {
            // every history starts with the initial fetch (as manage() does)
            let mut steps = vec![Step::Tick];
            steps.extend(tail);
            steps.push(Step::Send);
            Case { fast, paths, early, steps }
        })
}

fn run_random(ctx: &Ctx) {
    let n = ctx.tier.pick(250_000, 6_000_000);
    let max = ctx.tier.pick(24, 50);
    ctx.run_prop("histories-random", n, || case_strategy(max), check);
}

// ------------------------------------------------------------------------------ failover matrix (enumerated)

/// every family x kind x position on the first active path x elapsed time, followed by a failure
/// of the path traffic moved to (=> the first one must be eligible again once decayed)
fn matrix_case(i: u64) -> Option<Case> {
    let fams = families();
    let kinds = [IssueKindSpec::ExtDown, IssueKindSpec::IntDown, IssueKindSpec::FirstHop];
    let mut c = i;
    let fam = &fams[(c % fams.len() as u64) as usize];
    c /= fams.len() as u64;
    let kind = kinds[(c % 3) as usize];
    c /= 3;
    let pos = (c % 4) as u8;
    c /= 4;
    let factor = (c % 6) as u8;
    c /= 6;
    let reliability = c % 2 == 1;
    c /= 2;
    let order = (c % 3) as u8; // 0: after first fetch, 1: before first fetch (cached issue), 2: during a refetch
    c /= 3;
    if c > 0 {
        return None;
    }
    let paths: Vec<PathDef> = fam.iter().map(|r| PathDef { route: *r, life_s: 80_000 }).collect();
    let rep = Rep { kind, tgt: Tgt::Active(pos), pkt: 0 };
    let second = Rep { kind: IssueKindSpec::ExtDown, tgt: Tgt::Active(1), pkt: 1 };
    let wait = Step::Wait { factor, reliability };
    let (early, mut steps) = match order {
        0 => (None, vec![Step::Tick, Step::Send, Step::Report(rep), Step::Send]),
        1 => (Some((kind, fam[0], pos, factor)), vec![Step::Tick, Step::Send]),
        _ => (None, vec![Step::Tick, Step::Send, Step::ReportDuringNextFetch(rep), Step::Tick, Step::Send]),
    };
    steps.extend([wait, Step::Send, Step::Report(second), Step::Send, Step::Tick, Step::Send]);
    Some(Case { fast: true, paths, early, steps })
}
fn run_matrix(ctx: &Ctx) {
    let n = families().len() as u64 * 3 * 4 * 6 * 2 * 3;
    ctx.run_enum("failover-matrix", n, true, matrix_case, check);
}

fn post(ctx: &Ctx) {
    ctx.require_label("nontrivial", ctx.tier.pick(20_000, 1_000_000));
    ctx.require_label("report-hits-active", 800);
    ctx.require_label("report-hits-inactive-only", 200);
    ctx.require_label("report-matches-nothing", 300);
    ctx.require_label("report-before-first-fetch", 200);
    ctx.require_label("report-during-fetch", 200);
    ctx.require_label("failed-element:first-hop", 200);
    ctx.require_label("failed-element:transit", 200);
    ctx.require_label("failed-element:last-link", 100);
    ctx.require_label("previously-failed-path-chosen-again", 50);
    for l in ["elapsed:half", "elapsed:1", "elapsed:2", "elapsed:7", "elapsed:20"] {
        ctx.require_label(l, 200);
    }
}

fn main() {
    let subs = [
        Sub { name: "histories-random", run: run_random, replay: |c, v| c.replay_case::<Case>("histories-random", v, |k, o| p_stack::replay_repeated(k, o, check)) },
        Sub { name: "failover-matrix", run: run_matrix, replay: |c, v| c.replay_case::<Case>("failover-matrix", v, |k, o| p_stack::replay_repeated(k, o, check)) },
    ];
    vcore::main(
        "C07",
        "case = (2..6 pool routes with controlled interface sharing: shared first hop, shared transit AS with same / different ingress-egress pair, shared last link, equal / unequal lengths, ties; lifetimes; optional report cached before the pair is first used; steps). Steps: Serve(subset | error | not found), Tick (run maintenance at the next due instant), Wait({0,1/2,1,2,7,20} x 90 s reliability half-life or 30 s cached-issue half-life, maintenance runs when due), Report(SCMP ExternalInterfaceDown / InternalConnectivityDown / first-hop send failure aimed at the active path at a chosen AS position / only at inactive cached paths / at nothing), ReportDuringNextFetch, Send. Default scorers, default swap threshold 0.5, default dedup window and issue cache. Oracles: a reference model of the documented scoring (penalties -1.0 / -0.4 added to a sum that decays with a 90 s half-life, cached issues decayed with 30 s applied to newly fetched paths, length score 0.1*(1-hopfields/50)) in f64 with interval arithmetic for order-dependent clamping; (1) report hits the active path and a valid unpenalised cached path avoids the element => the next Send avoids it; (2) a replacement never lands on a path scoring worse than a valid alternative by more than 1e-3 (=> no return to a freshly failed element), the active path must be left when the best valid alternative leads by more than threshold+1e-3; (3) forced replacements (no active / expired / near expiry) pick a best-scoring valid path, so a decayed path is chosen again; (4) a report matching no cached path changes neither the active slot nor any score; reports that only hit inactive paths never move traffic onto them; the manager's reliabilities and cache membership equal the model within 1e-3. failover-matrix: 12 families x 3 kinds x 4 positions x 6 elapsed factors x 2 half-lives x 3 orders (after / before the first fetch / during a refetch), each followed by a failure of the path traffic moved to. Non-trivial = a report hit the active path while a valid unpenalised alternative was cached.",
        &[
            "the idle period is raised so that long waits do not end the history; maintenance runs exactly when due",
            "penalties and half-lives are taken from the module documentation (issues.rs / reliability.rs comments): -1.0 SCMP link failures, -0.4 first-hop send failure, 30 s / 90 s",
            "comparisons within 1e-3 of a tie or of the threshold are skipped",
            "a report naming the INGRESS interface of an AS on the path is not generated (SCMP names the egress the packet was to leave through)",
            "ranking ties are broken nondeterministically by the manager (new paths pass through a randomly keyed HashMap before a stable sort), so one history has several executions; no assertion depends on WHICH of equally ranked paths wins: every oracle constrains whatever path is returned (policy, provenance, liveness), sizes, schedules, or - in C07 - scores up to a 1e-3 tolerance where any path within tolerance of the best is accepted; replays and regressions run a case 33 times and fail if any execution fails",
        ],
        &subs,
        post,
    );
}
