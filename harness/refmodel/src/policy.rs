//! Reference semantics of the SCION path-policy languages (ACL and hop-pattern "sequence"),
//! written from the Path Policy language document and the statement of C16:
//!  * hop predicate: ISD (0 = any), AS (0 / absent = any), interfaces: none = any,
//!    one id = either ingress or egress equals it (0 = any), two ids = ingress and egress
//!    must equal them respectively (0 = any)
//!  * ACL: for every hop the first entry whose predicate matches decides; default otherwise;
//!    the path is allowed iff every hop is allowed
//!  * hop pattern: regular language over hops; matching by Brzozowski derivatives.

use serde::{Deserialize, Serialize};

#[derive(Clone, Copy, Debug, PartialEq, Eq, Hash, Serialize, Deserialize)]
pub struct Hop {
    pub isd: u16,
    pub asn: u64,
    pub ing: u16,
    pub eg: u16,
}

#[derive(Clone, Copy, Debug, PartialEq, Eq, Hash, Serialize, Deserialize)]
pub enum Ifs {
    Any,
    Either(u16),
    Both(u16, u16),
}

#[derive(Clone, Copy, Debug, PartialEq, Eq, Hash, Serialize, Deserialize)]
pub struct Pred {
    pub isd: u16,
    pub asn: Option<u64>,
    pub ifs: Ifs,
}

fn m<T: PartialEq + Default>(want: T, have: T) -> bool {
    want == T::default() || want == have
}

impl Pred {
    pub fn matches(&self, h: &Hop) -> bool {
        if !m(self.isd, h.isd) {
            return false;
        }
        if let Some(a) = self.asn {
            if !m(a, h.asn) {
                return false;
            }
        }
        match self.ifs {
            Ifs::Any => true,
            Ifs::Either(x) => x == 0 || x == h.ing || x == h.eg,
            Ifs::Both(i, e) => m(i, h.ing) && m(e, h.eg),
        }
    }
    /// documented string form: "I", "I-A", "I-A#x", "I-A#x,y" (None if not expressible)
    pub fn show(&self) -> Option<String> {
        let asn = |a: u64| crate::text::show_asn(a);
        Some(match (self.asn, self.ifs) {
            (None, Ifs::Any) => format!("{}", self.isd),
            (None, _) => return None,
            (Some(a), Ifs::Any) => format!("{}-{}", self.isd, asn(a)),
            (Some(a), Ifs::Either(x)) => format!("{}-{}#{}", self.isd, asn(a), x),
            (Some(a), Ifs::Both(i, e)) => format!("{}-{}#{},{}", self.isd, asn(a), i, e),
        })
    }
}

pub fn acl_allows(entries: &[(bool, Pred)], default_allow: bool, hops: &[Hop]) -> bool {
    hops.iter().all(|h| {
        entries
            .iter()
            .find(|(_, p)| p.matches(h))
            .map(|(allow, _)| *allow)
            .unwrap_or(default_allow)
    })
}

#[derive(Clone, Debug, PartialEq, Eq, Hash, Serialize, Deserialize)]
pub enum Pat {
    P(Pred),
    Or(Box<Pat>, Box<Pat>),
    Opt(Box<Pat>),
    Plus(Box<Pat>),
    Star(Box<Pat>),
}

impl Pat {
    pub fn depth(&self) -> usize {
        match self {
            Pat::P(_) => 0,
            Pat::Or(a, b) => 1 + a.depth().max(b.depth()),
            Pat::Opt(a) | Pat::Plus(a) | Pat::Star(a) => 1 + a.depth(),
        }
    }
    /// repetition applied to something that can match the empty sequence, or nested repetition
    pub fn is_tricky(&self) -> bool {
        match self {
            Pat::P(_) => false,
            Pat::Or(a, b) => a.is_tricky() || b.is_tricky(),
            Pat::Opt(a) => a.is_tricky(),
            Pat::Plus(a) | Pat::Star(a) => a.nullable() || a.has_rep() || a.is_tricky(),
        }
    }
    fn has_rep(&self) -> bool {
        match self {
            Pat::P(_) => false,
            Pat::Or(a, b) => a.has_rep() || b.has_rep(),
            Pat::Opt(a) => a.has_rep(),
            Pat::Plus(_) | Pat::Star(_) => true,
        }
    }
    pub fn nullable(&self) -> bool {
        match self {
            Pat::P(_) => false,
            Pat::Or(a, b) => a.nullable() || b.nullable(),
            Pat::Opt(_) | Pat::Star(_) => true,
            Pat::Plus(a) => a.nullable(),
        }
    }
    /// Prints the pattern. `style` supplies pseudo-random decisions (redundant parentheses,
    /// whitespace); `style == &mut 0` prints canonically.
    pub fn show(&self, style: &mut u64) -> String {
        fn bit(style: &mut u64) -> bool {
            let b = *style & 1 == 1;
            *style >>= 1;
            b
        }
        fn ws(style: &mut u64) -> &'static str {
            let v = *style & 3;
            *style >>= 2;
            match v {
                0 | 1 => "",
                2 => " ",
                _ => "\t ",
            }
        }
        fn go(p: &Pat, style: &mut u64, need_atom: bool) -> String {
            let s = match p {
                Pat::P(pr) => pr.show().expect("printable predicate"),
                Pat::Or(a, b) => {
                    // children of '|' are postfix-level expressions; an Or child on the right
                    // needs parentheses to keep its grouping (the language is the same anyway)
                    let l = go(a, style, false);
                    let r = go(b, style, matches!(**b, Pat::Or(..)));
                    let s = format!("{l}{}|{}{r}", ws(style), ws(style));
                    if need_atom { format!("({}{s}{})", ws(style), ws(style)) } else { s }
                }
                Pat::Opt(a) => format!("{}{}?", go(a, style, true), ws(style)),
                Pat::Plus(a) => format!("{}{}+", go(a, style, true), ws(style)),
                Pat::Star(a) => format!("{}{}*", go(a, style, true), ws(style)),
            };
            if bit(style) && bit(style) {
                format!("({}{s}{})", ws(style), ws(style))
            } else {
                s
            }
        }
        go(self, style, false)
    }
}

pub fn show_seq(seq: &[Pat], style: &mut u64) -> String {
    let mut out = String::new();
    for (i, p) in seq.iter().enumerate() {
        if i > 0 {
            out.push(' ');
        }
        // a top-level Or must be parenthesised? No: `a | b c` parses as (a|b) c, so a top-level
        // Or item can be printed bare; but a bare Or followed by an item stays unambiguous only
        // because '|' binds tighter than juxtaposition. Print it parenthesised half of the time.
        let s = p.show(style);
        out.push_str(&s);
    }
    out
}

// ---- Brzozowski derivatives ---------------------------------------------------------------------

#[derive(Clone, Debug, PartialEq, Eq)]
enum Re {
    Null,
    Eps,
    Atom(Pred),
    Cat(Box<Re>, Box<Re>),
    Alt(Box<Re>, Box<Re>),
    Star(Box<Re>),
}

fn cat(a: Re, b: Re) -> Re {
    match (a, b) {
        (Re::Null, _) | (_, Re::Null) => Re::Null,
        (Re::Eps, x) | (x, Re::Eps) => x,
        (a, b) => Re::Cat(Box::new(a), Box::new(b)),
    }
}
fn alt(a: Re, b: Re) -> Re {
    match (a, b) {
        (Re::Null, x) | (x, Re::Null) => x,
        (a, b) if a == b => a,
        (a, b) => Re::Alt(Box::new(a), Box::new(b)),
    }
}
fn star(a: Re) -> Re {
    match a {
        Re::Null | Re::Eps => Re::Eps,
        Re::Star(x) => Re::Star(x),
        a => Re::Star(Box::new(a)),
    }
}
fn of_pat(p: &Pat) -> Re {
    match p {
        Pat::P(pr) => Re::Atom(*pr),
        Pat::Or(a, b) => alt(of_pat(a), of_pat(b)),
        Pat::Opt(a) => alt(of_pat(a), Re::Eps),
        Pat::Plus(a) => {
            let r = of_pat(a);
            cat(r.clone(), star(r))
        }
        Pat::Star(a) => star(of_pat(a)),
    }
}
fn nullable(r: &Re) -> bool {
    match r {
        Re::Null | Re::Atom(_) => false,
        Re::Eps | Re::Star(_) => true,
        Re::Cat(a, b) => nullable(a) && nullable(b),
        Re::Alt(a, b) => nullable(a) || nullable(b),
    }
}
fn derive(r: &Re, h: &Hop) -> Re {
    match r {
        Re::Null | Re::Eps => Re::Null,
        Re::Atom(p) => {
            if p.matches(h) {
                Re::Eps
            } else {
                Re::Null
            }
        }
        Re::Cat(a, b) => {
            let left = cat(derive(a, h), (**b).clone());
            if nullable(a) { alt(left, derive(b, h)) } else { left }
        }
        Re::Alt(a, b) => alt(derive(a, h), derive(b, h)),
        Re::Star(a) => cat(derive(a, h), Re::Star(a.clone())),
    }
}

/// Does the hop sequence belong to the language of the top-level sequence `seq`?
pub fn pattern_matches(seq: &[Pat], hops: &[Hop]) -> bool {
    let mut r = Re::Eps;
    for p in seq.iter().rev() {
        r = cat(of_pat(p), r);
    }
    for h in hops {
        r = derive(&r, h);
        if r == Re::Null {
            return false;
        }
    }
    nullable(&r)
}

// ---- second reference matcher: Thompson NFA with epsilon closure --------------------------------
// Linear in the size of the pattern (no duplication of sub-patterns, unlike the derivative
// construction, whose `Plus` doubles its operand); used for deeply nested repetition operators.

struct Nfa {
    /// per state: epsilon successors and at most one labelled successor
    eps: Vec<Vec<usize>>,
    lab: Vec<Option<(Pred, usize)>>,
}
impl Nfa {
    fn state(&mut self) -> usize {
        self.eps.push(vec![]);
        self.lab.push(None);
        self.eps.len() - 1
    }
    /// builds the fragment for `p`; returns (entry, exit)
    fn build(&mut self, p: &Pat) -> (usize, usize) {
        // explicit stack: patterns may be nested thousands of levels deep
        enum Work<'a> {
            Visit(&'a Pat),
            Build(&'a Pat),
        }
        let mut work = vec![Work::Visit(p)];
        let mut out: Vec<(usize, usize)> = vec![];
        while let Some(w) = work.pop() {
            match w {
                Work::Visit(q) => {
                    work.push(Work::Build(q));
                    match q {
                        Pat::P(_) => {}
                        Pat::Or(a, b) => {
                            work.push(Work::Visit(b));
                            work.push(Work::Visit(a));
                        }
                        Pat::Opt(a) | Pat::Plus(a) | Pat::Star(a) => work.push(Work::Visit(a)),
                    }
                }
                Work::Build(q) => {
                    let (s, e) = (self.state(), self.state());
                    match q {
                        Pat::P(pr) => self.lab[s] = Some((*pr, e)),
                        Pat::Or(_, _) => {
                            let (bs, be) = out.pop().unwrap();
                            let (as_, ae) = out.pop().unwrap();
                            self.eps[s].extend([as_, bs]);
                            self.eps[ae].push(e);
                            self.eps[be].push(e);
                        }
                        Pat::Opt(_) => {
                            let (is, ie) = out.pop().unwrap();
                            self.eps[s].extend([is, e]);
                            self.eps[ie].push(e);
                        }
                        Pat::Plus(_) => {
                            let (is, ie) = out.pop().unwrap();
                            self.eps[s].push(is);
                            self.eps[ie].extend([is, e]);
                        }
                        Pat::Star(_) => {
                            let (is, ie) = out.pop().unwrap();
                            self.eps[s].extend([is, e]);
                            self.eps[ie].extend([is, e]);
                        }
                    }
                    out.push((s, e));
                }
            }
        }
        out.pop().unwrap()
    }
    fn closure(&self, set: &mut Vec<bool>, from: Vec<usize>) {
        let mut stack = from;
        while let Some(s) = stack.pop() {
            if set[s] {
                continue;
            }
            set[s] = true;
            stack.extend(self.eps[s].iter().copied());
        }
    }
}

/// Same question as `pattern_matches`, answered by NFA simulation.
pub fn pattern_matches_nfa(seq: &[Pat], hops: &[Hop]) -> bool {
    let mut n = Nfa { eps: vec![], lab: vec![] };
    let start = n.state();
    let mut last = start;
    for p in seq {
        let (s, e) = n.build(p);
        n.eps[last].push(s);
        last = e;
    }
    let mut cur = vec![false; n.eps.len()];
    n.closure(&mut cur, vec![start]);
    for h in hops {
        let mut next_from = vec![];
        for (s, on) in cur.iter().enumerate() {
            if *on {
                if let Some((p, t)) = &n.lab[s] {
                    if p.matches(h) {
                        next_from.push(*t);
                    }
                }
            }
        }
        let mut next = vec![false; n.eps.len()];
        n.closure(&mut next, next_from);
        cur = next;
        if !cur.iter().any(|x| *x) {
            return false;
        }
    }
    cur[last]
}
