//! Reference topology, control plane (beacons -> segments) and brute-force path combination.
//! Written from the SCION specifications; shares no code and no algorithm with sciparse's
//! graph combinator or pocketscion's beaconing.

use std::collections::BTreeSet;

use serde::{Deserialize, Serialize};

use crate::{
    mac::{self, Chain, HopIn, Key, SegUse},
    wire::RStd,
};

#[derive(Clone, Copy, Debug, PartialEq, Eq, Hash, Serialize, Deserialize)]
pub enum LinkKind {
    /// core <-> core
    Core,
    /// a is parent of b
    ParentChild,
    Peer,
}

#[derive(Clone, Debug, PartialEq, Eq, Hash, Serialize, Deserialize)]
pub struct AsNode {
    pub ia: u64,
    pub core: bool,
    pub key: Key,
    pub mtu: u16,
}
#[derive(Clone, Debug, PartialEq, Eq, Hash, Serialize, Deserialize)]
pub struct Link {
    pub a: usize,
    pub a_if: u16,
    pub b: usize,
    pub b_if: u16,
    pub kind: LinkKind,
    pub up: bool,
    pub mtu: u16,
}
#[derive(Clone, Debug, PartialEq, Eq, Hash, Serialize, Deserialize, Default)]
pub struct Topo {
    pub ases: Vec<AsNode>,
    pub links: Vec<Link>,
}

pub fn ia(isd: u16, asn: u64) -> u64 {
    ((isd as u64) << 48) | asn
}
pub fn isd_of(ia: u64) -> u16 {
    (ia >> 48) as u16
}

impl Topo {
    pub fn as_index(&self, ia: u64) -> Option<usize> {
        self.ases.iter().position(|a| a.ia == ia)
    }
    /// the link attached to interface `ifid` of AS `a`: (link index, remote AS, remote if)
    pub fn link_at(&self, a: usize, ifid: u16) -> Option<(usize, usize, u16)> {
        self.links.iter().enumerate().find_map(|(i, l)| {
            if l.a == a && l.a_if == ifid {
                Some((i, l.b, l.b_if))
            } else if l.b == a && l.b_if == ifid {
                Some((i, l.a, l.a_if))
            } else {
                None
            }
        })
    }
    /// link type as seen from AS `a` on interface `ifid`
    pub fn role_at(&self, a: usize, ifid: u16) -> Option<IfRole> {
        let (li, _, _) = self.link_at(a, ifid)?;
        let l = &self.links[li];
        Some(match l.kind {
            LinkKind::Core => IfRole::Core,
            LinkKind::Peer => IfRole::Peer,
            LinkKind::ParentChild => {
                if l.a == a {
                    IfRole::ToChild
                } else {
                    IfRole::ToParent
                }
            }
        })
    }
    /// children links of AS a: (link idx, local if, child, child if)
    fn child_links(&self, a: usize) -> Vec<(usize, u16, usize, u16)> {
        self.links.iter().enumerate().filter(|(_, l)| l.kind == LinkKind::ParentChild && l.a == a).map(|(i, l)| (i, l.a_if, l.b, l.b_if)).collect()
    }
    fn core_links(&self, a: usize) -> Vec<(usize, u16, usize, u16)> {
        self.links
            .iter()
            .enumerate()
            .filter(|(_, l)| l.kind == LinkKind::Core && (l.a == a || l.b == a))
            .map(|(i, l)| if l.a == a { (i, l.a_if, l.b, l.b_if) } else { (i, l.b_if, l.a, l.a_if) })
            .collect()
    }
    fn peer_links(&self, a: usize) -> Vec<(usize, u16, usize, u16)> {
        self.links
            .iter()
            .enumerate()
            .filter(|(_, l)| l.kind == LinkKind::Peer && (l.a == a || l.b == a))
            .map(|(i, l)| if l.a == a { (i, l.a_if, l.b, l.b_if) } else { (i, l.b_if, l.a, l.a_if) })
            .collect()
    }
}

#[derive(Clone, Copy, Debug, PartialEq, Eq, Hash)]
pub enum IfRole {
    Core,
    ToChild,
    ToParent,
    Peer,
}

// ---- segments -----------------------------------------------------------------------------------

#[derive(Clone, Debug, PartialEq, Eq, Hash, Serialize, Deserialize)]
pub struct Seg {
    pub core: bool,
    pub chain: Chain,
    /// per hop: AS MTU, MTU of the link the beacon came in on (0 for the first hop),
    /// and per peer entry the peering link MTU
    pub as_mtu: Vec<u16>,
    pub ingress_mtu: Vec<u16>,
    pub peer_mtu: Vec<Vec<u16>>,
}
impl Seg {
    pub fn first_as(&self) -> usize {
        self.chain.hops[0].asn
    }
    pub fn last_as(&self) -> usize {
        self.chain.hops.last().unwrap().asn
    }
    pub fn len(&self) -> usize {
        self.chain.hops.len()
    }
    pub fn is_empty(&self) -> bool {
        self.chain.hops.is_empty()
    }
}

/// Parameters of one beacon: timestamp, initial SegID, and ExpTime per (segment index, hop)
/// derived from a seed so that segments differ.
#[derive(Clone, Copy, Debug, Serialize, Deserialize)]
pub struct BeaconParams {
    pub ts: u32,
    pub seed: u64,
    /// fixed expiry units for all hops if Some, otherwise pseudo-random per hop
    pub exp: Option<u8>,
}

fn mix(seed: u64, a: u64, b: u64) -> u64 {
    let mut x = seed ^ a.wrapping_mul(0x9e3779b97f4a7c15) ^ b.wrapping_mul(0xc2b2ae3d27d4eb4f);
    x ^= x >> 31;
    x = x.wrapping_mul(0x7fb5d329728ea185);
    x ^= x >> 27;
    x
}

fn make_seg(t: &Topo, core: bool, walk: &[(usize, u16, u16, usize)], p: &BeaconParams, nth: u64, with_peers: bool) -> Seg {
    // walk: (as, ingress if, egress if, ingress link index or usize::MAX)
    let mut hin: Vec<HopIn> = vec![];
    let mut as_mtu = vec![];
    let mut ingress_mtu = vec![];
    let mut peer_mtu = vec![];
    for (i, (a, ing, eg, inlink)) in walk.iter().enumerate() {
        let exp = p.exp.unwrap_or((mix(p.seed, nth, i as u64) % 256) as u8);
        let mut peers = vec![];
        let mut pm = vec![];
        if with_peers && !core {
            for (li, lif, pa, pif) in t.peer_links(*a) {
                peers.push((pa, lif, pif, exp));
                pm.push(t.links[li].mtu);
            }
        }
        hin.push((*a, t.ases[*a].key, *ing, *eg, exp, peers));
        as_mtu.push(t.ases[*a].mtu);
        ingress_mtu.push(if *inlink == usize::MAX { 0 } else { t.links[*inlink].mtu });
        peer_mtu.push(pm);
    }
    let seg_id = (mix(p.seed, nth, 0xffff) & 0xffff) as u16;
    let ts = p.ts.wrapping_add((nth % 7) as u32);
    Seg { core, chain: mac::build_chain(seg_id, ts, &hin), as_mtu, ingress_mtu, peer_mtu }
}

/// All non-core segments (core AS down to every reachable AS along parent->child links, every
/// simple path) and all core segments (every simple path over core links, both orientations
/// arise naturally because beacons originate at every core AS). `max_len` bounds hops.
pub fn beacons(t: &Topo, p: &BeaconParams, max_len: usize) -> (Vec<Seg>, Vec<Seg>) {
    let mut non_core = vec![];
    let mut core = vec![];
    let mut nth = 0u64;
    for (c, node) in t.ases.iter().enumerate() {
        if !node.core {
            continue;
        }
        // DFS down the DAG
        let mut stack: Vec<Vec<(usize, u16, u16, usize)>> = vec![vec![(c, 0, 0, usize::MAX)]];
        while let Some(path) = stack.pop() {
            let (last, _, _, _) = *path.last().unwrap();
            if path.len() >= 2 {
                nth += 1;
                non_core.push(make_seg(t, false, &path, p, nth, true));
            }
            if path.len() >= max_len {
                continue;
            }
            for (li, lif, ch, chif) in t.child_links(last) {
                if !t.links[li].up || path.iter().any(|(a, ..)| *a == ch) {
                    continue;
                }
                let mut np = path.clone();
                np.last_mut().unwrap().2 = lif;
                np.push((ch, chif, 0, li));
                stack.push(np);
            }
        }
        // DFS over core links
        let mut stack: Vec<Vec<(usize, u16, u16, usize)>> = vec![vec![(c, 0, 0, usize::MAX)]];
        while let Some(path) = stack.pop() {
            let (last, _, _, _) = *path.last().unwrap();
            if path.len() >= 2 {
                nth += 1;
                core.push(make_seg(t, true, &path, p, nth, false));
            }
            if path.len() >= max_len {
                continue;
            }
            for (li, lif, o, oif) in t.core_links(last) {
                if !t.links[li].up || path.iter().any(|(a, ..)| *a == o) {
                    continue;
                }
                let mut np = path.clone();
                np.last_mut().unwrap().2 = lif;
                np.push((o, oif, 0, li));
                stack.push(np);
            }
        }
    }
    (core, non_core)
}

// ---- brute-force combination ----------------------------------------------------------------------

/// One end-to-end path found by the reference combinator.
#[derive(Clone, Debug, PartialEq, Eq)]
pub struct RefPath {
    /// (AS index, ingress if, egress if) in travel order; 0 at the ends
    pub hops: Vec<(usize, u16, u16)>,
    /// how it is assembled: indices into the `segs` slice given to `combine`
    pub uses: Vec<SegUse>,
    pub kind: &'static str,
    pub mtu: u16,
    /// number of inter-AS links
    pub links: usize,
}

fn seg_hops_travel(s: &Seg, lo: usize, hi: usize, cons_dir: bool, peer: Option<usize>) -> Vec<(usize, u16, u16)> {
    // travel-order (as, ingress, egress) for the used part; the peering hop (index lo) uses the
    // peering interface instead of the interface towards the parent
    let idxs: Vec<usize> = if cons_dir { (lo..=hi).collect() } else { (lo..=hi).rev().collect() };
    idxs.into_iter()
        .map(|i| {
            let h = &s.chain.hops[i];
            let (mut ing, eg) = (h.ing, h.eg);
            if i == lo {
                ing = match peer {
                    Some(p) => h.peers[p].ing,
                    None => 0, // cut here: the interface towards the parent is not used
                };
            }
            if cons_dir { (h.asn, ing, eg) } else { (h.asn, eg, ing) }
        })
        .collect()
}

fn part_mtu(s: &Seg, lo: usize, hi: usize, peer: Option<usize>) -> u16 {
    let mut m = u16::MAX;
    for i in lo..=hi {
        m = m.min(s.as_mtu[i]);
        if i > lo {
            m = m.min(s.ingress_mtu[i]);
        }
    }
    if let Some(p) = peer {
        m = m.min(s.peer_mtu[lo][p]);
    }
    m
}

fn join(parts: Vec<Vec<(usize, u16, u16)>>) -> Vec<(usize, u16, u16)> {
    // consecutive parts meet in the same AS (crossover): merge the two hop entries
    let mut out: Vec<(usize, u16, u16)> = vec![];
    for p in parts {
        for (k, h) in p.into_iter().enumerate() {
            if k == 0 {
                if let Some(last) = out.last_mut() {
                    if last.0 == h.0 {
                        last.2 = h.2;
                        continue;
                    }
                }
            }
            out.push(h);
        }
    }
    out
}

/// All end-to-end paths from AS `src` to AS `dst` obtainable from `segs` by the SCION
/// combination rules; deduplicated by hop sequence (the cheapest-MTU/any representative is kept
/// — callers compare sets of hop sequences), loop-free.
pub fn combine(segs: &[Seg], src: usize, dst: usize) -> Vec<RefPath> {
    let mut out: Vec<RefPath> = vec![];
    if src == dst {
        return out;
    }
    let mut push = |hops: Vec<(usize, u16, u16)>, uses: Vec<SegUse>, kind: &'static str, mtu: u16| {
        // loop-free: no AS twice
        let mut seen = BTreeSet::new();
        if !hops.iter().all(|h| seen.insert(h.0)) {
            return;
        }
        if hops.first().map(|h| h.0) != Some(src) || hops.last().map(|h| h.0) != Some(dst) {
            return;
        }
        let links = hops.len() - 1;
        out.push(RefPath { hops, uses, kind, mtu, links });
    };
    let n = segs.len();
    let nc: Vec<usize> = (0..n).filter(|i| !segs[*i].core && segs[*i].len() >= 2).collect();
    let cs: Vec<usize> = (0..n).filter(|i| segs[*i].core && segs[*i].len() >= 2).collect();
    // up-like uses: segment whose leaf is src, travelled against construction direction from the
    // leaf up to index i. down-like uses: leaf is dst, travelled in construction direction from j.
    // the index may be the leaf itself (only meaningful for peering: the path starts/ends on a peering link)
    let ups: Vec<(usize, usize)> = nc.iter().filter(|s| segs[**s].last_as() == src).flat_map(|s| (0..segs[*s].len()).map(move |i| (*s, i))).collect();
    let downs: Vec<(usize, usize)> = nc.iter().filter(|s| segs[**s].last_as() == dst).flat_map(|s| (0..segs[*s].len()).map(move |i| (*s, i))).collect();
    let up_use = |s: usize, i: usize, peer: Option<usize>| SegUse { chain: s, lo: i, hi: segs[s].len() - 1, cons_dir: false, peer };
    let down_use = |s: usize, j: usize, peer: Option<usize>| SegUse { chain: s, lo: j, hi: segs[s].len() - 1, cons_dir: true, peer };
    // (1) single non-core segment: destination on the up segment / source on the down segment
    for (s, i) in ups.iter().filter(|(s, i)| *i + 1 < segs[*s].len()) {
        if segs[*s].chain.hops[*i].asn == dst {
            let hi = segs[*s].len() - 1;
            push(seg_hops_travel(&segs[*s], *i, hi, false, None), vec![up_use(*s, *i, None)], if *i == 0 { "up-only" } else { "on-path-up" }, part_mtu(&segs[*s], *i, hi, None));
        }
    }
    for (s, j) in downs.iter().filter(|(s, j)| *j + 1 < segs[*s].len()) {
        if segs[*s].chain.hops[*j].asn == src {
            let hi = segs[*s].len() - 1;
            push(seg_hops_travel(&segs[*s], *j, hi, true, None), vec![down_use(*s, *j, None)], if *j == 0 { "down-only" } else { "on-path-down" }, part_mtu(&segs[*s], *j, hi, None));
        }
    }
    // (2) single core segment, either orientation
    for c in &cs {
        let l = segs[*c].len() - 1;
        if segs[*c].first_as() == src && segs[*c].last_as() == dst {
            push(seg_hops_travel(&segs[*c], 0, l, true, None), vec![SegUse { chain: *c, lo: 0, hi: l, cons_dir: true, peer: None }], "core-only", part_mtu(&segs[*c], 0, l, None));
        }
        if segs[*c].first_as() == dst && segs[*c].last_as() == src {
            push(seg_hops_travel(&segs[*c], 0, l, false, None), vec![SegUse { chain: *c, lo: 0, hi: l, cons_dir: false, peer: None }], "core-only-inverted", part_mtu(&segs[*c], 0, l, None));
        }
    }
    // (3) up + down meeting in a common AS (core join or shortcut), and (6) peering
    for (u, i) in &ups {
        for (d, j) in &downs {
            let (su, sd) = (&segs[*u], &segs[*d]);
            let (hu, hd) = (su.len() - 1, sd.len() - 1);
            if su.chain.hops[*i].asn == sd.chain.hops[*j].asn && *i < hu && *j < hd {
                let hops = join(vec![seg_hops_travel(su, *i, hu, false, None), seg_hops_travel(sd, *j, hd, true, None)]);
                let kind = if *i == 0 && *j == 0 { "up-down" } else { "shortcut" };
                push(hops, vec![up_use(*u, *i, None), down_use(*d, *j, None)], kind, part_mtu(su, *i, hu, None).min(part_mtu(sd, *j, hd, None)));
            }
            for (pi, p) in su.chain.hops[*i].peers.iter().enumerate() {
                for (qi, q) in sd.chain.hops[*j].peers.iter().enumerate() {
                    if p.peer_asn == sd.chain.hops[*j].asn && q.peer_asn == su.chain.hops[*i].asn && p.remote_if == q.ing && q.remote_if == p.ing {
                        let mut hops = seg_hops_travel(su, *i, hu, false, Some(pi));
                        hops.extend(seg_hops_travel(sd, *j, hd, true, Some(qi)));
                        push(hops, vec![up_use(*u, *i, Some(pi)), down_use(*d, *j, Some(qi))], "peering", part_mtu(su, *i, hu, Some(pi)).min(part_mtu(sd, *j, hd, Some(qi))));
                    }
                }
            }
        }
    }
    // (4)/(5) with a core segment in the middle / at an end
    for c in &cs {
        let sc = &segs[*c];
        let l = sc.len() - 1;
        for (cons, a, b) in [(true, sc.first_as(), sc.last_as()), (false, sc.last_as(), sc.first_as())] {
            let cuse = SegUse { chain: *c, lo: 0, hi: l, cons_dir: cons, peer: None };
            let chops = seg_hops_travel(sc, 0, l, cons, None);
            let cm = part_mtu(sc, 0, l, None);
            // up + core
            if b == dst {
                for (u, i) in ups.iter().filter(|(u, i)| *i == 0 && segs[*u].first_as() == a) {
                    let hu = segs[*u].len() - 1;
                    push(join(vec![seg_hops_travel(&segs[*u], 0, hu, false, None), chops.clone()]), vec![up_use(*u, *i, None), cuse.clone()], "up-core", part_mtu(&segs[*u], 0, hu, None).min(cm));
                }
            }
            // core + down
            if a == src {
                for (d, j) in downs.iter().filter(|(d, j)| *j == 0 && segs[*d].first_as() == b) {
                    let hd = segs[*d].len() - 1;
                    push(join(vec![chops.clone(), seg_hops_travel(&segs[*d], 0, hd, true, None)]), vec![cuse.clone(), down_use(*d, *j, None)], "core-down", cm.min(part_mtu(&segs[*d], 0, hd, None)));
                }
            }
            // up + core + down
            for (u, i) in ups.iter().filter(|(u, i)| *i == 0 && segs[*u].first_as() == a) {
                for (d, j) in downs.iter().filter(|(d, j)| *j == 0 && segs[*d].first_as() == b) {
                    let (hu, hd) = (segs[*u].len() - 1, segs[*d].len() - 1);
                    push(
                        join(vec![seg_hops_travel(&segs[*u], 0, hu, false, None), chops.clone(), seg_hops_travel(&segs[*d], 0, hd, true, None)]),
                        vec![up_use(*u, *i, None), cuse.clone(), down_use(*d, *j, None)],
                        "up-core-down",
                        part_mtu(&segs[*u], 0, hu, None).min(cm).min(part_mtu(&segs[*d], 0, hd, None)),
                    );
                }
            }
        }
    }
    out
}

/// dataplane path (as the source must send it) for a reference path
pub fn dataplane(segs: &[Seg], p: &RefPath) -> (RStd, Vec<mac::HopExpect>) {
    let chains: Vec<Chain> = segs.iter().map(|s| s.chain.clone()).collect();
    mac::plan_path(&chains, &p.uses)
}
