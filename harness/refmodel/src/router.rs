//! Reference border-router processing of a standard SCION path at one AS, following the
//! order of the SCION reference router:
//!   parse -> peering determination -> hop expiry -> ingress interface match -> dst/src IA
//!   checks -> (against construction direction, external ingress, not peering) SegID update ->
//!   MAC check -> local delivery iff last hop and dst IA local -> crossover (segment switch,
//!   second expiry/MAC check) -> interface pair admissibility -> egress exists / link up ->
//!   (construction direction, not peering) SegID update -> increment.
//! Works on the decoded path (`RStd`), with per-AS keys and link data from `Topo`.

use serde::{Deserialize, Serialize};

use crate::{
    mac,
    topo::{IfRole, Topo},
    wire::{RHop, RStd},
};

#[derive(Clone, Copy, Debug, PartialEq, Eq, Hash, Serialize, Deserialize)]
pub enum Reject {
    Malformed,
    Expired,
    BadIngress,
    BadEgress,
    BadMac,
    BadSegChange,
    NonLocal,
    IfDown,
}

#[derive(Clone, Debug, PartialEq, Eq)]
pub enum Verdict {
    Deliver,
    Forward { egress: u16, next_as: usize, next_if: u16 },
    Reject(Reject),
}

fn seg_bounds(p: &RStd) -> Vec<(usize, usize)> {
    // [start, end) hop indices per present segment (prefix of non-zero lengths)
    let mut out = vec![];
    let mut k = 0usize;
    for l in p.seg_len.iter() {
        if *l == 0 {
            break;
        }
        out.push((k, k + *l as usize));
        k += *l as usize;
    }
    out
}

pub fn hop_expiry_ms(ts: u32, exp: u8) -> u64 {
    ts as u64 * 1000 + (exp as u64 + 1) * 337_500
}

fn travel(h: &RHop, cons_dir: bool) -> (u16, u16) {
    if cons_dir { (h.ing, h.eg) } else { (h.eg, h.ing) }
}

/// Processes the packet's path at AS `a`, entered through interface `ingress` (0 = from inside
/// the AS). On `Forward` the path has been advanced for the next AS.
pub fn process(t: &Topo, a: usize, ingress: u16, p: &mut RStd, dst_ia: u64, now: u32) -> Verdict {
    process_all(t, a, ingress, p, dst_ia, now, Lenient::default()).0
}

/// Rules of the reference router that a caller may switch off where the property under test
/// leaves the behaviour open.
#[derive(Clone, Copy, Debug, Default)]
pub struct Lenient {
    /// a packet whose destination ISD-AS is the processing AS but whose path continues is
    /// forwarded (the reference router answers "invalid destination")
    pub transit_through_dst: bool,
    /// a segment change on a packet that entered from inside the AS is processed like one that
    /// arrived over the interface named by the hop field
    pub internal_xover: bool,
}

/// As `process`, additionally returning every rule the packet violates at this AS (in checking
/// order; the verdict is the first one). Callers that compare error classes of a router with a
/// different checking order accept any member of the list.
pub fn process_all(t: &Topo, a: usize, ingress: u16, p: &mut RStd, dst_ia: u64, now: u32, len: Lenient) -> (Verdict, Vec<Reject>) {
    let mut all: Vec<Reject> = vec![];
    let bounds = seg_bounds(p);
    let nhops: usize = p.hops.len();
    // well-formed: no gaps in the segment lengths, pointers inside and consistent
    if bounds.is_empty() || bounds.last().unwrap().1 != nhops || p.infos.len() != bounds.len() {
        return (Verdict::Reject(Reject::Malformed), vec![Reject::Malformed]);
    }
    let (ci, ch) = (p.curr_inf as usize, p.curr_hf as usize);
    if ch >= nhops || ci >= bounds.len() || !(bounds[ci].0 <= ch && ch < bounds[ci].1) {
        return (Verdict::Reject(Reject::Malformed), vec![Reject::Malformed]);
    }
    // peering
    let info = p.infos[ci];
    let mut peering = false;
    if info.peering() {
        if bounds.len() != 2 {
            return (Verdict::Reject(Reject::Malformed), vec![Reject::Malformed]);
        }
        peering = ch + 1 == bounds[0].1 || ch == bounds[1].0;
    }
    let key = t.ases[a].key;
    let now_ms = now as u64 * 1000;
    let hop = p.hops[ch];
    if hop_expiry_ms(info.ts, hop.exp) < now_ms {
        all.push(Reject::Expired);
    }
    let (h_in, h_eg) = travel(&hop, info.cons_dir());
    if ingress != 0 && h_in != ingress {
        all.push(Reject::BadIngress);
    }
    let is_last = ch + 1 == nhops;
    let local = t.ases[a].ia;
    if (dst_ia == local) != is_last && !(len.transit_through_dst && !is_last) {
        all.push(Reject::NonLocal);
    }
    if !info.cons_dir() && ingress != 0 && !peering {
        p.infos[ci].seg_id = mac::beta_step(p.infos[ci].seg_id, &hop.mac);
    }
    if !mac::verifies(&key, p.infos[ci].seg_id, info.ts, &hop) {
        all.push(Reject::BadMac);
    }
    let finish = |v: Verdict, all: Vec<Reject>| if let Some(f) = all.first() { (Verdict::Reject(*f), all) } else { (v, all) };
    if is_last {
        return finish(Verdict::Deliver, all);
    }
    // crossover: the current hop is the last of its segment (and this is not a peering hop)
    let mut eff_xover = false;
    let mut egress = h_eg;
    if ch + 1 == bounds[ci].1 && !peering {
        eff_xover = true;
        p.curr_hf += 1;
        p.curr_inf += 1;
        let (ci2, ch2) = (p.curr_inf as usize, p.curr_hf as usize);
        let info2 = p.infos[ci2];
        let hop2 = p.hops[ch2];
        if hop_expiry_ms(info2.ts, hop2.exp) < now_ms {
            all.push(Reject::Expired);
        }
        if !mac::verifies(&key, info2.seg_id, info2.ts, &hop2) {
            all.push(Reject::BadMac);
        }
        egress = travel(&hop2, info2.cons_dir()).1;
        if ch2 + 1 == nhops {
            // a segment consisting of a single hop at the very end: nothing to forward on
            all.push(Reject::Malformed);
            return finish(Verdict::Deliver, all);
        }
    }
    // interface pair admissibility
    let Some((eg_link, next_as, next_if)) = t.link_at(a, egress) else {
        all.push(Reject::BadEgress);
        return finish(Verdict::Deliver, all);
    };
    let eg_role = t.role_at(a, egress).unwrap();
    let role_if = if ingress == 0 && eff_xover && len.internal_xover { h_in } else { ingress };
    if role_if != 0 {
        match t.role_at(a, role_if) {
            None => all.push(Reject::BadIngress),
            Some(in_role) => {
                use IfRole::*;
                // roles are named after where the interface leads: ToParent = towards the parent
                let ok = if !eff_xover {
                    matches!((in_role, eg_role), (Core, Core) | (ToChild, ToParent) | (ToParent, ToChild) | (ToChild, Peer) | (Peer, ToChild))
                } else {
                    matches!((in_role, eg_role), (Core, ToChild) | (ToChild, Core) | (ToChild, ToChild))
                };
                if !ok {
                    all.push(Reject::BadSegChange);
                }
            }
        }
    } else if eff_xover {
        // a segment change on a packet coming from inside the AS is never valid
        all.push(Reject::BadSegChange);
    }
    if !t.links[eg_link].up {
        all.push(Reject::IfDown);
    }
    if !all.is_empty() {
        return finish(Verdict::Deliver, all);
    }
    // egress processing
    let (ci, ch) = (p.curr_inf as usize, p.curr_hf as usize);
    if p.infos[ci].cons_dir() && !peering {
        p.infos[ci].seg_id = mac::beta_step(p.infos[ci].seg_id, &p.hops[ch].mac);
    }
    let bounds = seg_bounds(p);
    p.curr_hf += 1;
    if p.curr_hf as usize >= bounds[ci].1 {
        p.curr_inf += 1;
    }
    (Verdict::Forward { egress, next_as, next_if }, all)
}

#[derive(Clone, Debug, PartialEq, Eq)]
pub struct Walk {
    /// (AS, ingress if, egress if) of every AS that forwarded or delivered
    pub visited: Vec<(usize, u16, u16)>,
    /// Some(as) if delivered
    pub delivered: Option<usize>,
    /// Some((as, class)) if rejected
    pub rejected: Option<(usize, Reject)>,
    pub steps: usize,
}

/// Injects the packet at AS `start` through interface `ingress` (0 = sent by a host inside)
/// and follows it through the topology.
pub fn walk(t: &Topo, start: usize, ingress: u16, p: &mut RStd, dst_ia: u64, now: u32) -> Walk {
    let mut w = Walk { visited: vec![], delivered: None, rejected: None, steps: 0 };
    let (mut a, mut inif) = (start, ingress);
    let bound = p.hops.len() + 2;
    loop {
        w.steps += 1;
        if w.steps > bound {
            w.rejected = Some((a, Reject::Malformed));
            return w;
        }
        match process(t, a, inif, p, dst_ia, now) {
            Verdict::Deliver => {
                w.visited.push((a, inif, 0));
                w.delivered = Some(a);
                return w;
            }
            Verdict::Reject(r) => {
                w.rejected = Some((a, r));
                return w;
            }
            Verdict::Forward { egress, next_as, next_if } => {
                w.visited.push((a, inif, egress));
                a = next_as;
                inif = next_if;
            }
        }
    }
}

/// reference reversal of a standard path as received at the destination (pointers at the last
/// hop): the reply path with pointers at its first hop
pub fn reverse(p: &RStd) -> RStd {
    let bounds = seg_bounds(p);
    let mut segs: Vec<(crate::wire::RInfo, Vec<RHop>)> = bounds.iter().enumerate().map(|(i, (s, e))| (p.infos[i], p.hops[*s..*e].to_vec())).collect();
    segs.reverse();
    let n = p.hops.len();
    let mut out = RStd { curr_inf: (bounds.len() - 1 - p.curr_inf as usize) as u8, curr_hf: (n - 1 - p.curr_hf as usize) as u8, rsv: 0, seg_len: [0; 3], infos: vec![], hops: vec![] };
    for (i, (mut info, mut hops)) in segs.into_iter().enumerate() {
        info.flags ^= 1;
        hops.reverse();
        out.seg_len[i] = hops.len() as u8;
        out.infos.push(info);
        out.hops.extend(hops);
    }
    out
}
