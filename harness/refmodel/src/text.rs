//! Reference grammar for the SCION text forms (written from the documentation, shares no code
//! with sciparse). IP literals are delegated to `std::net` (third party for this purpose).
//!
//!   isd        = num10(u16)
//!   asn        = num10(<= 2^32-1) / hex16 ":" hex16 ":" hex16
//!   isd-asn    = isd "-" asn                       ; exactly one '-'
//!   svc        = ("CS" / "DS" / "Wildcard" / unnamed) [ "_A" / "_M" ]
//!   unnamed    = "<SVC:0x" 4LHEXDIG ">"            ; displayed form of a value without a name
//!                                                  ; (anycast part only, not one of the named)
//!   host       = ipv4 / ipv6 / svc
//!   addr       = isd-asn "," host
//!   sockaddr   = "[" addr "]:" num10(u16)
//!
//! Numeric tokens are accepted exactly as Rust's integer parsing accepts them (optional
//! leading '+', leading zeros); these spellings drop no character.

use std::net::{Ipv4Addr, Ipv6Addr};

#[derive(Clone, Copy, Debug, PartialEq, Eq, Hash)]
pub enum RHost {
    V4([u8; 4]),
    V6([u8; 16]),
    Svc(u16),
}

fn num(s: &str, radix: u32, max: u64) -> Option<u64> {
    let digits = s.strip_prefix('+').unwrap_or(s);
    if digits.is_empty() {
        return None;
    }
    let mut v: u64 = 0;
    for c in digits.chars() {
        let d = c.to_digit(radix)? as u64;
        v = v.checked_mul(radix as u64)?.checked_add(d)?;
        if v > max {
            return None;
        }
    }
    Some(v)
}

pub fn isd(s: &str) -> Option<u16> {
    num(s, 10, u16::MAX as u64).map(|v| v as u16)
}

pub fn asn(s: &str) -> Option<u64> {
    // decimal notation: only digits (and an optional '+'); valid up to 2^32-1
    let digits = s.strip_prefix('+').unwrap_or(s);
    if !digits.is_empty() && digits.chars().all(|c| c.is_ascii_digit()) {
        // values that do not fit a u64 are not decimal numbers for Rust's parser; they are not
        // colon-hex either (no colon) => rejected both ways
        return num(s, 10, u32::MAX as u64);
    }
    let parts: Vec<&str> = s.split(':').collect();
    if parts.len() != 3 {
        return None;
    }
    let mut v = 0u64;
    for p in parts {
        v = (v << 16) | num(p, 16, 0xffff)?;
    }
    Some(v)
}

pub fn isd_asn(s: &str) -> Option<(u16, u64)> {
    if s.chars().filter(|c| *c == '-').count() != 1 {
        return None;
    }
    let (a, b) = s.split_once('-')?;
    Some((isd(a)?, asn(b)?))
}

pub fn svc(s: &str) -> Option<u16> {
    let (name, multicast) = if let Some(n) = s.strip_suffix("_A") {
        (n, false)
    } else if let Some(n) = s.strip_suffix("_M") {
        (n, true)
    } else {
        (s, false)
    };
    let base = match name {
        "DS" => 0x0001u16,
        "CS" => 0x0002,
        "Wildcard" => 0x0010,
        other => {
            let hex = other.strip_prefix("<SVC:0x")?.strip_suffix('>')?;
            if hex.len() != 4 || !hex.chars().all(|c| c.is_ascii_digit() || ('a'..='f').contains(&c)) {
                return None;
            }
            let v = u16::from_str_radix(hex, 16).ok()?;
            if v & 0x8000 != 0 || matches!(v, 1 | 2 | 0x10) {
                return None;
            }
            v
        }
    };
    Some(if multicast { base | 0x8000 } else { base })
}

pub fn ipv4(s: &str) -> Option<RHost> {
    s.parse::<Ipv4Addr>().ok().map(|a| RHost::V4(a.octets()))
}
pub fn ipv6(s: &str) -> Option<RHost> {
    s.parse::<Ipv6Addr>().ok().map(|a| RHost::V6(a.octets()))
}
pub fn svc_host(s: &str) -> Option<RHost> {
    svc(s).map(RHost::Svc)
}

#[derive(Clone, Copy, Debug, PartialEq, Eq)]
pub enum HostKinds {
    Any,
    V4,
    V6,
    Svc,
    Ip,
}

pub fn host(s: &str, k: HostKinds) -> Option<RHost> {
    match k {
        HostKinds::V4 => ipv4(s),
        HostKinds::V6 => ipv6(s),
        HostKinds::Svc => svc_host(s),
        HostKinds::Ip => ipv4(s).or_else(|| ipv6(s)),
        HostKinds::Any => ipv4(s).or_else(|| ipv6(s)).or_else(|| svc_host(s)),
    }
}

pub fn addr(s: &str, k: HostKinds) -> Option<(u16, u64, RHost)> {
    let (ia, h) = s.split_once(',')?;
    let (i, a) = isd_asn(ia)?;
    Some((i, a, host(h, k)?))
}

pub fn sockaddr(s: &str, k: HostKinds) -> Option<(u16, u64, RHost, u16)> {
    let inner = s.strip_prefix('[')?;
    let close = inner.rfind(']')?;
    let rest = &inner[close + 1..];
    let port = rest.strip_prefix(':')?;
    let port = num(port, 10, u16::MAX as u64)? as u16;
    let (i, a, h) = addr(&inner[..close], k)?;
    Some((i, a, h, port))
}

// ---- reference display (used to generate valid spellings) -------------------------------------

pub fn show_asn(a: u64) -> String {
    if a <= u32::MAX as u64 {
        format!("{a}")
    } else {
        format!("{:x}:{:x}:{:x}", (a >> 32) & 0xffff, (a >> 16) & 0xffff, a & 0xffff)
    }
}
pub fn show_asn_hex(a: u64) -> String {
    format!("{:x}:{:x}:{:x}", (a >> 32) & 0xffff, (a >> 16) & 0xffff, a & 0xffff)
}
pub fn show_isd_asn(i: u16, a: u64) -> String {
    format!("{i}-{}", show_asn(a))
}
/// `None` for values without a service name.
pub fn svc_name(v: u16) -> Option<&'static str> {
    match v & 0x7fff {
        1 => Some("DS"),
        2 => Some("CS"),
        0x10 => Some("Wildcard"),
        _ => None,
    }
}
pub fn show_svc(v: u16) -> Option<String> {
    let name = match svc_name(v) {
        Some(n) => n.to_string(),
        None => format!("<SVC:{:#06x}>", v & 0x7fff),
    };
    Some(if v & 0x8000 != 0 { format!("{name}_M") } else { name })
}
pub fn show_host(h: RHost) -> Option<String> {
    Some(match h {
        RHost::V4(o) => Ipv4Addr::from(o).to_string(),
        RHost::V6(o) => Ipv6Addr::from(o).to_string(),
        RHost::Svc(v) => show_svc(v)?,
    })
}

// ---- DNS TXT payload (TSAR), ABNF of scion-stack/src/resolver/txt.rs ---------------------------
//   payload       = address *( "," address )          (after the "scion=v1;" prefix)
//   address       = "[" isd-as "," host "]"            host = ipv4 / ipv6
// Whitespace around entries/tokens is tolerated (the module's tests document it).
pub fn txt_payload(p: &str) -> Option<Vec<(u16, u64, RHost)>> {
    let mut out = vec![];
    let mut rest = p.trim();
    if rest.is_empty() {
        return None;
    }
    loop {
        let inner = rest.strip_prefix('[')?;
        let close = inner.find(']')?;
        let entry = inner[..close].trim();
        let (ia, h) = entry.split_once(',')?;
        let (i, a) = isd_asn(ia.trim())?;
        let h = host(h.trim(), HostKinds::Ip)?;
        out.push((i, a, h));
        rest = inner[close + 1..].trim();
        if rest.is_empty() {
            return Some(out);
        }
        rest = rest.strip_prefix(',')?.trim();
        // a separator must be followed by another address
        if rest.is_empty() {
            return None;
        }
    }
}
