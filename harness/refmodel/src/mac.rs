//! Reference hop-field MAC chain (draft-dekater-scion-dataplane §"Hop Field MAC"):
//!   sigma_i = AES-CMAC(K_i, 0(2) | beta_i(2) | Timestamp(4) | 0(1) | ExpTime(1) | ConsIngress(2) |
//!                       ConsEgress(2) | 0(2))[0..6]
//!   beta_0 = SegID, beta_{i+1} = beta_i XOR sigma_i[0..2]
//! Peering hop fields of AS i are chained on beta_{i+1} (they hang off the same parent as the
//! next hop), as the reference beacon extender does.

use aes::Aes128;
use cmac::{Cmac, Mac};
use serde::{Deserialize, Serialize};

use crate::wire::{RHop, RInfo, RStd};

pub type Key = [u8; 16];

pub fn hop_mac(key: &Key, beta: u16, ts: u32, exp: u8, ing: u16, eg: u16) -> [u8; 6] {
    let mut block = [0u8; 16];
    block[2..4].copy_from_slice(&beta.to_be_bytes());
    block[4..8].copy_from_slice(&ts.to_be_bytes());
    block[9] = exp;
    block[10..12].copy_from_slice(&ing.to_be_bytes());
    block[12..14].copy_from_slice(&eg.to_be_bytes());
    let mut m = <Cmac<Aes128> as Mac>::new_from_slice(key).expect("16 byte key");
    m.update(&block);
    let full = m.finalize().into_bytes();
    let mut out = [0u8; 6];
    out.copy_from_slice(&full[..6]);
    out
}

pub fn beta_step(beta: u16, mac: &[u8; 6]) -> u16 {
    beta ^ u16::from_be_bytes([mac[0], mac[1]])
}

/// One AS entry of a beacon in construction direction.
#[derive(Clone, Debug, PartialEq, Eq, Hash, Serialize, Deserialize)]
pub struct ChainHop {
    /// opaque AS identity (index into the caller's AS table)
    pub asn: usize,
    pub key: Key,
    pub ing: u16,
    pub eg: u16,
    pub exp: u8,
    pub mac: [u8; 6],
    /// beta_i: the SegID value this hop's MAC was computed with
    pub beta: u16,
    pub peers: Vec<PeerHop>,
}
/// A peering hop field offered by the AS: ConsIngress = the peering interface, ConsEgress = the
/// AS entry's egress; MAC chained on beta_{i+1}.
#[derive(Clone, Debug, PartialEq, Eq, Hash, Serialize, Deserialize)]
pub struct PeerHop {
    pub peer_asn: usize,
    /// local peering interface (ConsIngress of the peer hop field)
    pub ing: u16,
    /// interface id at the remote side of the peering link
    pub remote_if: u16,
    pub exp: u8,
    pub mac: [u8; 6],
}

#[derive(Clone, Debug, PartialEq, Eq, Hash, Serialize, Deserialize)]
pub struct Chain {
    pub seg_id: u16,
    pub ts: u32,
    pub hops: Vec<ChainHop>,
    /// beta_0 ..= beta_n
    pub betas: Vec<u16>,
}

/// (asn, key, ingress, egress, exp, [(peer asn, local peering if, remote if, exp)])
pub type HopIn = (usize, Key, u16, u16, u8, Vec<(usize, u16, u16, u8)>);

pub fn build_chain(seg_id: u16, ts: u32, hops: &[HopIn]) -> Chain {
    let mut beta = seg_id;
    let mut out = vec![];
    let mut betas = vec![beta];
    for (asn, key, ing, eg, exp, peers) in hops {
        let mac = hop_mac(key, beta, ts, *exp, *ing, *eg);
        let next = beta_step(beta, &mac);
        let peers = peers
            .iter()
            .map(|(peer_asn, pif, rif, pexp)| PeerHop { peer_asn: *peer_asn, ing: *pif, remote_if: *rif, exp: *pexp, mac: hop_mac(key, next, ts, *pexp, *pif, *eg) })
            .collect();
        out.push(ChainHop { asn: *asn, key: *key, ing: *ing, eg: *eg, exp: *exp, mac, beta, peers });
        beta = next;
        betas.push(beta);
    }
    Chain { seg_id, ts, hops: out, betas }
}

/// How one segment is used inside an end-to-end path.
#[derive(Clone, Debug, PartialEq, Eq, Hash, Serialize, Deserialize)]
pub struct SegUse {
    /// index into the caller's list of chains
    pub chain: usize,
    /// inclusive range of chain hop indices used, in construction order (lo <= hi)
    pub lo: usize,
    pub hi: usize,
    /// travel in construction direction?
    pub cons_dir: bool,
    /// the hop at the peering end (hi for !cons_dir = travel-last ... see `plan_path`) is replaced
    /// by the AS's peering hop field number `peer` (index into ChainHop::peers)
    pub peer: Option<usize>,
}

/// What the AS processing dataplane hop field `i` (travel order) must see.
#[derive(Clone, Debug, PartialEq, Eq)]
pub struct HopExpect {
    pub asn: usize,
    pub key: Key,
    /// SegID with which this hop field's MAC verifies
    pub beta: u16,
    pub peering: bool,
    pub seg: usize,
}

/// Assembles the dataplane path (as the source endhost must send it: pointers at 0, SegIDs
/// initialised per traversal direction / cut / peering) and the per-hop expectations.
///
/// Peering is only meaningful for exactly two segments: seg 0 travelled against construction
/// direction whose travel-last hop (chain index `lo`) is a peering hop field, seg 1 travelled in
/// construction direction whose travel-first hop (chain index `lo`) is a peering hop field.
pub fn plan_path(chains: &[Chain], uses: &[SegUse]) -> (RStd, Vec<HopExpect>) {
    let mut infos = vec![];
    let mut hops = vec![];
    let mut seg_len = [0u8; 3];
    let mut exp = vec![];
    for (si, u) in uses.iter().enumerate() {
        let c = &chains[u.chain];
        let idxs: Vec<usize> = if u.cons_dir { (u.lo..=u.hi).collect() } else { (u.lo..=u.hi).rev().collect() };
        let peer_flag = u.peer.is_some();
        // the peering hop sits at chain index lo (top of the used part) in both directions
        let init = if u.cons_dir {
            if peer_flag { c.betas[u.lo + 1] } else { c.betas[u.lo] }
        } else {
            // first travelled hop is chain index hi; if the only hop is the peering hop, its beta
            if peer_flag && u.lo == u.hi { c.betas[u.lo + 1] } else { c.betas[u.hi] }
        };
        infos.push(RInfo { flags: (u.cons_dir as u8) | ((peer_flag as u8) << 1), rsv: 0, seg_id: init, ts: c.ts });
        seg_len[si] = idxs.len() as u8;
        for ci in idxs {
            let h = &c.hops[ci];
            if peer_flag && ci == u.lo {
                let p = &h.peers[u.peer.unwrap()];
                hops.push(RHop { flags: 0, exp: p.exp, ing: p.ing, eg: h.eg, mac: p.mac });
                exp.push(HopExpect { asn: h.asn, key: h.key, beta: c.betas[ci + 1], peering: true, seg: si });
            } else {
                hops.push(RHop { flags: 0, exp: h.exp, ing: h.ing, eg: h.eg, mac: h.mac });
                exp.push(HopExpect { asn: h.asn, key: h.key, beta: h.beta, peering: false, seg: si });
            }
        }
    }
    (RStd { curr_inf: 0, curr_hf: 0, rsv: 0, seg_len, infos, hops }, exp)
}

/// Reference verification of one hop field exactly as an on-path AS does it.
pub fn verifies(key: &Key, seg_id: u16, ts: u32, h: &RHop) -> bool {
    hop_mac(key, seg_id, ts, h.exp, h.ing, h.eg) == h.mac
}
