pub mod mac;
pub mod policy;
pub mod router;
pub mod text;
pub mod topo;
pub mod wire;
