pub mod mac;
pub mod policy;
pub mod text;
pub mod wire;
