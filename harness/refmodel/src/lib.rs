pub mod text;
pub mod wire;
