//! Reference decoder/encoder for the SCION header, UDP and SCMP, written from the header
//! diagrams of draft-dekater-scion-dataplane / the SCMP specification with its own table of
//! offsets. Shares no code with sciparse.
//!
//! Common header (12 bytes):
//!   0: ver(4) | tc hi(4)      1: tc lo(4) | flow(20 bits over bytes 1..4)
//!   4: NextHdr  5: HdrLen (4-byte units)  6..8: PayloadLen
//!   8: PathType 9: DT(2) DL(2) ST(2) SL(2)  10..12: RSV
//! Address header: DstISD(2) DstAS(6) SrcISD(2) SrcAS(6) DstHost((DL+1)*4) SrcHost((SL+1)*4)
//! Standard path: PathMeta(4): C(2) CurrHF(6) RSV(6) Seg0(6) Seg1(6) Seg2(6);
//!   info fields (8 each, one per non-empty segment): flags(1) rsv(1) SegID(2) Timestamp(4)
//!   hop fields (12 each): flags(1) ExpTime(1) ConsIngress(2) ConsEgress(2) MAC(6)
//! One-hop path: info(8) hop(12) hop(12)

use serde::{Deserialize, Serialize};

#[derive(Clone, Copy, Debug, PartialEq, Eq, Hash, Serialize, Deserialize)]
pub struct RInfo {
    pub flags: u8,
    pub rsv: u8,
    pub seg_id: u16,
    pub ts: u32,
}
impl RInfo {
    pub fn cons_dir(&self) -> bool {
        self.flags & 1 != 0
    }
    pub fn peering(&self) -> bool {
        self.flags & 2 != 0
    }
}
#[derive(Clone, Copy, Debug, PartialEq, Eq, Hash, Serialize, Deserialize)]
pub struct RHop {
    pub flags: u8,
    pub exp: u8,
    pub ing: u16,
    pub eg: u16,
    pub mac: [u8; 6],
}
#[derive(Clone, Debug, PartialEq, Eq, Hash, Serialize, Deserialize)]
pub struct RStd {
    pub curr_inf: u8,
    pub curr_hf: u8,
    pub rsv: u8,
    pub seg_len: [u8; 3],
    pub infos: Vec<RInfo>,
    pub hops: Vec<RHop>,
}
#[derive(Clone, Debug, PartialEq, Eq, Hash, Serialize, Deserialize)]
pub enum RPath {
    Empty,
    Std(RStd),
    OneHop { info: RInfo, hops: [RHop; 2] },
    Other { ty: u8, data: Vec<u8> },
}
#[derive(Clone, Debug, PartialEq, Eq, Hash, Serialize, Deserialize)]
pub struct RHeader {
    pub version: u8,
    pub tc: u8,
    pub flow: u32,
    pub next: u8,
    pub hdr_units: u8,
    pub payload_len: u16,
    pub path_type: u8,
    /// DT/DL nibble, ST/SL nibble
    pub dst_tl: u8,
    pub src_tl: u8,
    pub rsv: u16,
    pub dst_ia: u64,
    pub src_ia: u64,
    pub dst_host: Vec<u8>,
    pub src_host: Vec<u8>,
    pub path: RPath,
}

#[derive(Clone, Debug, PartialEq, Eq)]
pub enum RErr {
    /// buffer ends before the named part
    Short(&'static str),
    Version,
    /// HdrLen*4 differs from the length computed from the fields
    HdrLen { advertised: usize, computed: usize },
}

pub const COMMON: usize = 12;

fn be16(b: &[u8]) -> u16 {
    u16::from_be_bytes([b[0], b[1]])
}
fn be32(b: &[u8]) -> u32 {
    u32::from_be_bytes([b[0], b[1], b[2], b[3]])
}
fn be48(b: &[u8]) -> u64 {
    let mut x = [0u8; 8];
    x[2..].copy_from_slice(&b[..6]);
    u64::from_be_bytes(x)
}

pub fn host_len(tl: u8) -> usize {
    (((tl & 3) as usize) + 1) * 4
}

pub fn dec_info(b: &[u8]) -> RInfo {
    RInfo { flags: b[0], rsv: b[1], seg_id: be16(&b[2..]), ts: be32(&b[4..]) }
}
pub fn dec_hop(b: &[u8]) -> RHop {
    let mut mac = [0u8; 6];
    mac.copy_from_slice(&b[6..12]);
    RHop { flags: b[0], exp: b[1], ing: be16(&b[2..]), eg: be16(&b[4..]), mac }
}
pub fn enc_info(i: &RInfo, out: &mut Vec<u8>) {
    out.push(i.flags);
    out.push(i.rsv);
    out.extend_from_slice(&i.seg_id.to_be_bytes());
    out.extend_from_slice(&i.ts.to_be_bytes());
}
pub fn enc_hop(h: &RHop, out: &mut Vec<u8>) {
    out.push(h.flags);
    out.push(h.exp);
    out.extend_from_slice(&h.ing.to_be_bytes());
    out.extend_from_slice(&h.eg.to_be_bytes());
    out.extend_from_slice(&h.mac);
}

/// Size in bytes of a standard path with these segment lengths.
pub fn std_path_size(seg: [u8; 3]) -> usize {
    let infos = seg.iter().filter(|l| **l > 0).count();
    let hops: usize = seg.iter().map(|l| *l as usize).sum();
    4 + 8 * infos + 12 * hops
}

/// Decodes a standard path that must be fully contained in `b`; returns it and its size.
pub fn decode_std_path(b: &[u8]) -> Result<(RStd, usize), RErr> {
    if b.len() < 4 {
        return Err(RErr::Short("PathMeta"));
    }
    let w = be32(b);
    let seg_len = [((w >> 12) & 0x3f) as u8, ((w >> 6) & 0x3f) as u8, (w & 0x3f) as u8];
    let size = std_path_size(seg_len);
    if b.len() < size {
        return Err(RErr::Short("PathData"));
    }
    let ninfo = seg_len.iter().filter(|l| **l > 0).count();
    let nhop: usize = seg_len.iter().map(|l| *l as usize).sum();
    let mut infos = vec![];
    let mut hops = vec![];
    for i in 0..ninfo {
        infos.push(dec_info(&b[4 + 8 * i..]));
    }
    for i in 0..nhop {
        hops.push(dec_hop(&b[4 + 8 * ninfo + 12 * i..]));
    }
    Ok((
        RStd { curr_inf: (w >> 30) as u8, curr_hf: ((w >> 24) & 0x3f) as u8, rsv: ((w >> 18) & 0x3f) as u8, seg_len, infos, hops },
        size,
    ))
}

pub fn encode_std_path(p: &RStd) -> Vec<u8> {
    let w: u32 = ((p.curr_inf as u32 & 3) << 30)
        | ((p.curr_hf as u32 & 0x3f) << 24)
        | ((p.rsv as u32 & 0x3f) << 18)
        | ((p.seg_len[0] as u32 & 0x3f) << 12)
        | ((p.seg_len[1] as u32 & 0x3f) << 6)
        | (p.seg_len[2] as u32 & 0x3f);
    let mut out = w.to_be_bytes().to_vec();
    for i in &p.infos {
        enc_info(i, &mut out);
    }
    for h in &p.hops {
        enc_hop(h, &mut out);
    }
    out
}

/// Decodes the SCION header at the start of `b`. The header must be fully contained in `b` and
/// HdrLen must equal the length implied by address lengths and path.
pub fn decode_header(b: &[u8]) -> Result<RHeader, RErr> {
    if b.len() < COMMON {
        return Err(RErr::Short("CommonHeader"));
    }
    let version = b[0] >> 4;
    if version != 0 {
        return Err(RErr::Version);
    }
    let tc = (b[0] << 4) | (b[1] >> 4);
    let flow = (((b[1] & 0x0f) as u32) << 16) | ((b[2] as u32) << 8) | b[3] as u32;
    let next = b[4];
    let hdr_units = b[5];
    let payload_len = be16(&b[6..]);
    let path_type = b[8];
    let dst_tl = b[9] >> 4;
    let src_tl = b[9] & 0x0f;
    let rsv = be16(&b[10..]);
    let dl = host_len(dst_tl);
    let sl = host_len(src_tl);
    let addr_end = COMMON + 16 + dl + sl;
    if b.len() < addr_end {
        return Err(RErr::Short("AddressHeader"));
    }
    let dst_ia = ((be16(&b[12..]) as u64) << 48) | be48(&b[14..]);
    let src_ia = ((be16(&b[20..]) as u64) << 48) | be48(&b[22..]);
    let dst_host = b[28..28 + dl].to_vec();
    let src_host = b[28 + dl..28 + dl + sl].to_vec();
    let advertised = hdr_units as usize * 4;
    let rest = &b[addr_end..];
    let (path, psize) = match path_type {
        0 => (RPath::Empty, 0),
        1 => {
            let (p, s) = decode_std_path(rest)?;
            (RPath::Std(p), s)
        }
        2 => {
            if rest.len() < 32 {
                return Err(RErr::Short("OneHopPath"));
            }
            (RPath::OneHop { info: dec_info(rest), hops: [dec_hop(&rest[8..]), dec_hop(&rest[20..])] }, 32)
        }
        ty => {
            // unknown path types: the path is whatever HdrLen says is left
            if advertised < addr_end {
                return Err(RErr::HdrLen { advertised, computed: addr_end });
            }
            if b.len() < advertised {
                return Err(RErr::Short("UnknownPath"));
            }
            (RPath::Other { ty, data: b[addr_end..advertised].to_vec() }, advertised - addr_end)
        }
    };
    let computed = addr_end + psize;
    if computed != advertised {
        return Err(RErr::HdrLen { advertised, computed });
    }
    Ok(RHeader { version, tc, flow, next, hdr_units, payload_len, path_type, dst_tl, src_tl, rsv, dst_ia, src_ia, dst_host, src_host, path })
}

impl RHeader {
    pub fn header_len(&self) -> usize {
        self.hdr_units as usize * 4
    }
    pub fn path_bytes(&self) -> Vec<u8> {
        match &self.path {
            RPath::Empty => vec![],
            RPath::Std(p) => encode_std_path(p),
            RPath::OneHop { info, hops } => {
                let mut o = vec![];
                enc_info(info, &mut o);
                enc_hop(&hops[0], &mut o);
                enc_hop(&hops[1], &mut o);
                o
            }
            RPath::Other { data, .. } => data.clone(),
        }
    }
    /// canonical: reserved bits zero
    pub fn reserved_zero(&self) -> bool {
        if self.rsv != 0 {
            return false;
        }
        match &self.path {
            RPath::Std(p) => p.rsv == 0 && p.infos.iter().all(|i| i.rsv == 0),
            RPath::OneHop { info, .. } => info.rsv == 0,
            _ => true,
        }
    }
}

/// Encodes the header exactly as given (no consistency enforced: HdrLen, lengths are taken from
/// the struct so that inconsistent headers can be produced on purpose).
pub fn encode_header(h: &RHeader) -> Vec<u8> {
    let mut o = Vec::with_capacity(64);
    o.push((h.version << 4) | (h.tc >> 4));
    o.push((h.tc << 4) | ((h.flow >> 16) & 0x0f) as u8);
    o.push((h.flow >> 8) as u8);
    o.push(h.flow as u8);
    o.push(h.next);
    o.push(h.hdr_units);
    o.extend_from_slice(&h.payload_len.to_be_bytes());
    o.push(h.path_type);
    o.push((h.dst_tl << 4) | (h.src_tl & 0x0f));
    o.extend_from_slice(&h.rsv.to_be_bytes());
    o.extend_from_slice(&h.dst_ia.to_be_bytes());
    o.extend_from_slice(&h.src_ia.to_be_bytes());
    o.extend_from_slice(&h.dst_host);
    o.extend_from_slice(&h.src_host);
    o.extend_from_slice(&h.path_bytes());
    o
}

// ---- checksum (RFC 1071 over the SCION pseudo header || upper-layer message) --------------------

pub fn ones_sum(data: &[u8]) -> u16 {
    let mut sum: u64 = 0;
    let mut i = 0;
    while i + 1 < data.len() {
        sum += ((data[i] as u64) << 8) | data[i + 1] as u64;
        i += 2;
    }
    if i < data.len() {
        sum += (data[i] as u64) << 8;
    }
    while sum >> 16 != 0 {
        sum = (sum & 0xffff) + (sum >> 16);
    }
    sum as u16
}

/// pseudo header: DstIA(8) SrcIA(8) DstHost SrcHost UpperLayerLength(4) zero(3) NextHdr(1)
pub fn pseudo_header(h: &RHeader, proto: u8, upper_len: usize) -> Vec<u8> {
    let mut p = vec![];
    p.extend_from_slice(&h.dst_ia.to_be_bytes());
    p.extend_from_slice(&h.src_ia.to_be_bytes());
    p.extend_from_slice(&h.dst_host);
    p.extend_from_slice(&h.src_host);
    p.extend_from_slice(&(upper_len as u32).to_be_bytes());
    p.extend_from_slice(&[0, 0, 0, proto]);
    p
}

/// true iff the checksum embedded in `msg` verifies (sum over pseudo header || msg == 0xffff)
pub fn checksum_verifies(h: &RHeader, proto: u8, msg: &[u8]) -> bool {
    let mut all = pseudo_header(h, proto, msg.len());
    all.extend_from_slice(msg);
    ones_sum(&all) == 0xffff
}

/// the checksum value that makes `msg` (with its checksum field zeroed at `at`) verify
pub fn compute_checksum(h: &RHeader, proto: u8, msg: &[u8], at: usize) -> u16 {
    let mut all = pseudo_header(h, proto, msg.len());
    let base = all.len();
    all.extend_from_slice(msg);
    all[base + at] = 0;
    all[base + at + 1] = 0;
    !ones_sum(&all)
}

// ---- UDP / SCMP ---------------------------------------------------------------------------------

#[derive(Clone, Debug, PartialEq, Eq, Serialize, Deserialize)]
pub struct RUdp {
    pub src_port: u16,
    pub dst_port: u16,
    pub length: u16,
    pub checksum: u16,
}
pub fn decode_udp(b: &[u8]) -> Option<RUdp> {
    if b.len() < 8 {
        return None;
    }
    Some(RUdp { src_port: be16(b), dst_port: be16(&b[2..]), length: be16(&b[4..]), checksum: be16(&b[6..]) })
}

pub const SCMP_PROTO: u8 = 202;
pub const UDP_PROTO: u8 = 17;
pub const SCMP_ERROR_MAX: usize = 1232;

/// SCMP types: 1 DestUnreachable, 2 PacketTooBig, 4 ParameterProblem, 5 ExternalInterfaceDown,
/// 6 InternalConnectivityDown, 128 EchoRequest, 129 EchoReply, 130 TracerouteRequest,
/// 131 TracerouteReply. Types < 128 are errors.
#[derive(Clone, Debug, PartialEq, Eq, Serialize, Deserialize)]
pub struct RScmp {
    pub ty: u8,
    pub code: u8,
    pub checksum: u16,
    /// bytes after the 4-byte SCMP header
    pub body: Vec<u8>,
}
pub fn decode_scmp(b: &[u8]) -> Option<RScmp> {
    if b.len() < 4 {
        return None;
    }
    Some(RScmp { ty: b[0], code: b[1], checksum: be16(&b[2..]), body: b[4..].to_vec() })
}
impl RScmp {
    pub fn is_error(&self) -> bool {
        self.ty < 128
    }
    /// size of the fixed part after the 4-byte header, before the quoted packet / data
    pub fn fixed_len(ty: u8) -> Option<usize> {
        Some(match ty {
            1 => 4,        // reserved(4)
            2 => 4,        // reserved(2) mtu(2)
            4 => 4,        // reserved(2) pointer(2)
            5 => 16,       // ISD(2) AS(6) IfID(8)
            6 => 24,       // ISD(2) AS(6) Ingress(8) Egress(8)
            128 | 129 => 4, // id(2) seq(2)
            130 | 131 => 20, // id(2) seq(2) ISD(2) AS(6) IfID(8)
            _ => return None,
        })
    }
    /// the quoted offending packet (errors) or the echo data
    pub fn tail(&self) -> Option<&[u8]> {
        let f = Self::fixed_len(self.ty)?;
        self.body.get(f..)
    }
}
