//! C15 (part "txt") — DNS TXT address records: the payload parser of scion-stack's resolver
//! round-trips every address list, accepts exactly the documented grammar and never panics.

use std::net::{Ipv4Addr, Ipv6Addr};

use proptest::prelude::*;
use refmodel::text::{self as rt, RHost};
use scion_stack::verif::txt as sut;
use sciparse::address::ip_addr::ScionIpAddr;
use serde::{Deserialize, Serialize};
use vcore::{CheckResult, Ctx, Fail, Obs, Sub, ensure};

type Entry = (u16, u64, RHost);

fn norm(v: &[ScionIpAddr]) -> Vec<Entry> {
    v.iter()
        .map(|a| {
            let ia = a.isd_asn();
            let h = match a.ip() {
                std::net::IpAddr::V4(x) => RHost::V4(x.octets()),
                std::net::IpAddr::V6(x) => RHost::V6(x.octets()),
            };
            (ia.isd().0, ia.asn().0, h)
        })
        .collect()
}

#[derive(Clone, Debug, Serialize, Deserialize)]
struct ValCase {
    entries: Vec<(u16, u64, bool, [u8; 16])>,
    /// spelling: bit0 decimal AS where possible, bit1 spaces after commas, bit2 spaces inside
    /// brackets, bit3 surrounding whitespace
    style: u8,
}

fn show_entry(e: &(u16, u64, bool, [u8; 16]), style: u8) -> (String, Entry) {
    let (isd, asn, v6, b) = e;
    let host = if *v6 { RHost::V6(*b) } else { RHost::V4([b[0], b[1], b[2], b[3]]) };
    let hs = match host {
        RHost::V4(o) => Ipv4Addr::from(o).to_string(),
        RHost::V6(o) => Ipv6Addr::from(o).to_string(),
        RHost::Svc(_) => unreachable!(),
    };
    let ias = if style & 1 != 0 && *asn < (1u64 << 32) { format!("{isd}-{asn}") } else { format!("{isd}-{:x}:{:x}:{:x}", (asn >> 32) & 0xffff, (asn >> 16) & 0xffff, asn & 0xffff) };
    let s = if style & 4 != 0 { format!("[ {ias} , {hs} ]") } else { format!("[{ias},{hs}]") };
    (s, (*isd, *asn, host))
}

fn check_value(c: &ValCase, obs: &mut Obs) -> CheckResult {
    let mut parts = vec![];
    let mut want = vec![];
    for e in &c.entries {
        let (s, n) = show_entry(e, c.style);
        parts.push(s);
        want.push(n);
    }
    let mut text = parts.join(if c.style & 2 != 0 { " , " } else { "," });
    if c.style & 8 != 0 {
        text = format!("  {text}\t ");
    }
    let got = vcore::no_panic("parse_txt_payload", || sut::parse_txt_payload(&text))?;
    let got = got.map_err(|e| Fail::new("txt:displayed-list-rejected", format!("{text:?}: {e}")))?;
    ensure!(norm(&got) == want, "txt:round-trip-differs", "{text:?} parsed to {:?}, expected {want:?}", norm(&got));
    // the record form, through the record resolver
    let rec = format!("scion=v1;{text}");
    let got2 = vcore::no_panic("resolve_txt_records", || sut::resolve_txt_records("example.org", vec!["v=spf1 -all".into(), rec.clone()]))?;
    let got2 = got2.map_err(|e| Fail::new("txt:record-rejected", format!("{rec:?}: {e}")))?;
    ensure!(norm(&got2) == want, "txt:record-round-trip-differs", "{rec:?} resolved to {:?}", norm(&got2));
    obs.label(format!("entries-{}", c.entries.len().min(4)));
    if c.entries.len() >= 2 {
        obs.nontrivial(&(format!("{:?}", c.entries), c.style));
    }
    Ok(())
}

#[derive(Clone, Debug, Serialize, Deserialize)]
struct StrCase {
    s: String,
}

fn check_string(c: &StrCase, obs: &mut Obs) -> CheckResult {
    let got = vcore::no_panic("parse_txt_payload", || sut::parse_txt_payload(&c.s))?;
    let want = rt::txt_payload(&c.s);
    match (&got, &want) {
        (Ok(g), Some(w)) => {
            ensure!(norm(g) == *w, "txt:accepted-with-other-value", "{:?}: parser {:?}, grammar {w:?}", c.s, norm(g));
            obs.label("accepted");
            obs.nontrivial(&c.s);
        }
        (Err(_), None) => {
            obs.label("rejected");
            // near misses are the interesting rejections
            if c.s.contains('[') && c.s.contains(']') && c.s.contains('-') {
                obs.label("rejected-near-valid");
                obs.nontrivial(&c.s);
            }
        }
        (Ok(g), None) => {
            let why = if c.s.trim_end().ends_with(',') { "trailing-separator" } else { "other" };
            return Err(Fail::new(format!("txt:accepts-string-outside-grammar:{why}"), format!("{:?} accepted as {:?}", c.s, norm(g))));
        }
        (Err(e), Some(w)) => return Err(Fail::new("txt:rejects-string-of-the-grammar", format!("{:?} rejected ({e}), grammar gives {w:?}", c.s))),
    }
    Ok(())
}

fn entry_strategy() -> impl Strategy<Value = (u16, u64, bool, [u8; 16])> {
    (
        prop_oneof![Just(0u16), Just(1), Just(19), Just(65535), any::<u16>()],
        prop_oneof![Just(0u64), Just(1), Just(64512), Just((1u64 << 32) - 1), Just(1u64 << 32), Just(0xff00_0000_0110), Just((1u64 << 48) - 1), 0u64..(1u64 << 48)],
        any::<bool>(),
        prop_oneof![
            any::<[u8; 16]>(),
            Just([0u8; 16]),
            any::<[u8; 4]>().prop_map(|b| { let mut a = [0u8; 16]; a[10] = 0xff; a[11] = 0xff; a[12..].copy_from_slice(&b); a }),
            any::<(u8, u8)>().prop_map(|(x, y)| { let mut a = [0u8; 16]; a[0] = 0x20; a[1] = 0x01; a[15] = x; a[7] = y; a }),
        ],
    )
}

fn valid_text() -> impl Strategy<Value = String> {
    (proptest::collection::vec(entry_strategy(), 1..4), 0u8..16).prop_map(|(es, style)| {
        let parts: Vec<String> = es.iter().map(|e| show_entry(e, style).0).collect();
        parts.join(if style & 2 != 0 { ", " } else { "," })
    })
}

fn mutated_text() -> impl Strategy<Value = String> {
    (valid_text(), 0u8..10, any::<u16>(), prop_oneof![Just(','), Just('['), Just(']'), Just(' '), Just('-'), Just(':'), Just('.'), Just('x'), Just('0'), Just('9'), Just('é'), Just('\u{1F300}'), Just('\t'), Just(';')]).prop_map(|(s, op, pos, ch)| {
        let chars: Vec<char> = s.chars().collect();
        let n = chars.len();
        let i = vcore::idx(pos, n + 1);
        let mut out: Vec<char> = chars.clone();
        match op {
            0 => out.insert(i, ch),
            1 if n > 0 => {
                out.remove(i.min(n - 1));
            }
            2 if n > 0 => out[i.min(n - 1)] = ch,
            3 => out.push(','),
            4 => out.insert(0, ','),
            5 => out.extend(",,".chars()),
            6 => out.extend(format!("{ch}").chars()),
            7 => out.truncate(i),
            8 => out.extend(", ".chars()),
            _ => {
                out.insert(0, ch);
            }
        }
        out.into_iter().collect()
    })
}

fn special() -> Vec<String> {
    let a = "[1-ff00:0:110,10.0.0.1]";
    let mut v: Vec<String> = vec![
        "", " ", ",", "[", "]", "[]", "[,]", "[1-1,]", "[,10.0.0.1]", "[1-ff00:0:110 10.0.0.1]", "[1-ff00:0:110,10.0.0.1", "1-ff00:0:110,10.0.0.1]", "[[1-ff00:0:110,10.0.0.1]]",
        "[1-ff00:0:110,10.0.0.1]]", "[1-ff00:0:110,10.0.0.1],", "[1-ff00:0:110,10.0.0.1], ", "[1-ff00:0:110,10.0.0.1],,[1-ff00:0:110,10.0.0.2]", ",[1-ff00:0:110,10.0.0.1]",
        "[1-ff00:0:110,10.0.0.1][1-ff00:0:110,10.0.0.2]", "[1-ff00:0:110,10.0.0.1] [1-ff00:0:110,10.0.0.2]", "[1-ff00:0:110,10.0.0.1];[1-ff00:0:110,10.0.0.2]",
        "[1-ff00:0:110,10.0.0.1]x", "x[1-ff00:0:110,10.0.0.1]", "[1-ff00:0:110,10.0.0.256]", "[1-ff00:0:110,10.0.0]", "[1-ff00:0:110,::1]", "[1-ff00:0:110,[::1]]", "[1-ff00:0:110,fe80::1%eth0]",
        "[65536-ff00:0:110,10.0.0.1]", "[1-10000:0:0,10.0.0.1]", "[1-4294967296,10.0.0.1]", "[1-4294967295,10.0.0.1]", "[1-0,10.0.0.1]", "[0-0,0.0.0.0]", "[1-ff00:0:110,10.0.0.1,10.0.0.2]",
        "[1-ff00:0:110,CS]", "[1-ff00:0:110,10.0.0.1:80]", "[é-ff00:0:110,10.0.0.1]", "[1-ff00:0:110,10.0.0.1]\u{1F300}", "\u{1F300}", "[1-ff00:0:110,\u{661}\u{660}.0.0.1]", "[+1-ff00:0:110,10.0.0.1]", "[1-ff00:0:110,010.0.0.1]",
    ]
    .into_iter()
    .map(String::from)
    .collect();
    v.push(format!("{a},{a},{a},{a},{a},{a},{a},{a}"));
    v.push(format!("{},{a}", "[".repeat(2000)));
    v.push(",".repeat(3000));
    v
}

fn run(ctx: &Ctx) {
    let n = ctx.tier.pick(20_000, 1_000_000);
    ctx.run_prop("txt-values-round-trip", n, || (proptest::collection::vec(entry_strategy(), 1..6), 0u8..16).prop_map(|(entries, style)| ValCase { entries, style }), check_value);
    let sp: Vec<StrCase> = special().into_iter().map(|s| StrCase { s }).collect();
    ctx.run_list("txt-special-strings", &sp, check_string);
    // all strings of length <= 3 over a small alphabet
    let alpha: Vec<char> = "[],-:.1 af\u{e9}".chars().collect();
    let k = alpha.len() as u64;
    ctx.run_enum("txt-short-strings", 1 + k + k * k + k * k * k, true, |mut i| {
        let mut s = String::new();
        let len = if i == 0 { 0 } else if i <= k { i -= 1; 1 } else if i <= k + k * k { i -= 1 + k; 2 } else { i -= 1 + k + k * k; 3 };
        for _ in 0..len {
            s.push(alpha[(i % k) as usize]);
            i /= k;
        }
        Some(StrCase { s })
    }, check_string);
    let n = ctx.tier.pick(60_000, 3_000_000);
    ctx.run_prop("txt-single-edit-mutations", n, || prop_oneof![1 => valid_text(), 5 => mutated_text()].prop_map(|s| StrCase { s }), check_string);
    let n = ctx.tier.pick(20_000, 1_000_000);
    ctx.run_prop("txt-random-strings", n, || prop_oneof!["[\\[\\],\\-:. 0-9a-fx]{0,40}", "\\PC{0,20}", "(\\[[0-9]{1,2}-[0-9a-f:]{1,12},[0-9a-f:.]{1,20}\\],?){0,3}"].prop_map(|s| StrCase { s }), check_string);
}

fn post(ctx: &Ctx) {
    ctx.require_label("accepted", 2000);
    ctx.require_label("rejected-near-valid", 2000);
}

fn main() {
    let subs = [
        Sub { name: "txt-values-round-trip", run, replay: |c, v| c.replay_case::<ValCase>("c15t", v, check_value) },
        Sub { name: "txt-special-strings", run: |_| {}, replay: |c, v| c.replay_case::<StrCase>("c15t", v, check_string) },
        Sub { name: "txt-short-strings", run: |_| {}, replay: |c, v| c.replay_case::<StrCase>("c15t", v, check_string) },
        Sub { name: "txt-single-edit-mutations", run: |_| {}, replay: |c, v| c.replay_case::<StrCase>("c15t", v, check_string) },
        Sub { name: "txt-random-strings", run: |_| {}, replay: |c, v| c.replay_case::<StrCase>("c15t", v, check_string) },
    ];
    vcore::main(
        "C15",
        "part txt. Values: lists of 1-5 (ISD-AS, IPv4/IPv6) entries written in every documented spelling (colon-hex / decimal AS, optional whitespace around tokens and entries) must parse back to the same list, directly and as 'scion=v1;' record next to a foreign TXT record. Strings: hand-picked near misses, all strings of length <=3 over a 12-character alphabet, single-edit mutations of valid lists (insert/delete/replace a character incl. non-ASCII, extra/leading/trailing separators, truncation) and random strings: parse_txt_payload must return Ok exactly for the strings of the documented ABNF (address *( ',' address ), whitespace tolerated as the module's tests show) with the value the grammar gives, Err otherwise, never panic. Non-trivial = list of >=2 entries / accepted string / rejected string containing brackets and a dash.",
        &["the reference grammar is refmodel::text (own IPv4/IPv6/ISD-AS recognisers)", "IPv6 zone identifiers and IPv4-in-brackets are outside the grammar"],
        &subs,
        post,
    );
}
