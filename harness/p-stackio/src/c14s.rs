fn main(){}
