//! C14 (part "stack") — scion-stack's SCMP handling: DefaultEchoHandler answers exactly the
//! well-formed echo requests, faithfully and over the reversed path; the socket's receive loop
//! hands SCMP errors to the application-side receivers, never answers them, and datagram
//! delivery is unaffected by interleaved SCMP traffic.

use std::net::IpAddr;

use p_sciparse::spec::fill;
use proptest::prelude::*;
use refmodel::{
    router,
    wire::{self as rw, RHeader, RHop, RInfo, RPath, RStd},
};
use scion_stack::{
    stack::scmp_handler::{DefaultEchoHandler, ScmpHandler},
    verif::socket as hook,
};
use sciparse::{
    address::ip_socket_addr::ScionSocketIpAddr,
    core::{encode::WireEncode, view::View},
    dataplane_path::view::ScionDpPathViewExt,
    identifier::isd_asn::IsdAsn,
    packet::view::ScionRawPacketView,
    payload::scmp::model::ScmpErrorMessage,
};
use serde::{Deserialize, Serialize};
use vcore::{CheckResult, Ctx, Fail, Obs, Sub, ensure, idx};

#[derive(Clone, Debug, Serialize, Deserialize)]
enum PathK {
    Empty,
    /// standard path as delivered at the destination (pointers at the last hop) unless `at` moves them
    Std { lens: Vec<u8>, cons: Vec<bool>, at: Option<(u8, u8)>, seed: u64 },
    OneHop { seed: u64, second_set: bool },
}

#[derive(Clone, Debug, Serialize, Deserialize)]
enum L4 {
    Udp { sport: u16, dport: u16, len: u16 },
    EchoRequest { id: u16, seq: u16, len: u16, bad_checksum: bool },
    EchoReply { id: u16, seq: u16, len: u16 },
    Traceroute { reply: bool },
    /// error message (type index, code), quoting `quote` bytes; `nested`: the quote is itself an SCMP error packet
    Error { ty: u8, code: u8, quote: u16, nested: bool, bad_checksum: bool },
    UnknownInfo { ty: u8, len: u16 },
    /// SCMP cut inside its header / fixed part
    Truncated { ty: u8, keep: u8 },
    OtherProto { proto: u8, len: u16 },
}

#[derive(Clone, Debug, Serialize, Deserialize)]
struct Pkt {
    /// host kinds: 0 v4, 1 v6 (source may also be 2 = service address)
    src_kind: u8,
    dst_kind: u8,
    src_ia: u64,
    path: PathK,
    l4: L4,
    seed: u64,
}

const LOCAL_IA: u64 = 0x0001_ff00_0000_0110;

fn hostb(kind: u8, last: u8) -> (u8, Vec<u8>) {
    match kind % 3 {
        0 => (0x0, vec![10, 0, 0, last]),
        1 => {
            let mut a = vec![0u8; 16];
            a[0] = 0xfd;
            a[15] = last;
            (0x3, a)
        }
        _ => (0x4, vec![0, 2, 0, 0]),
    }
}

fn build_path(p: &PathK) -> (u8, RPath) {
    match p {
        PathK::Empty => (0, RPath::Empty),
        PathK::OneHop { seed, second_set } => {
            let info = RInfo { flags: 1, rsv: 0, seg_id: *seed as u16, ts: 1_700_000_000 };
            let h0 = RHop { flags: 0, exp: 63, ing: 0, eg: 3, mac: [(*seed >> 8) as u8, 2, 3, 4, 5, 6] };
            let h1 = if *second_set { RHop { flags: 0, exp: 63, ing: 9, eg: 0, mac: [9, 8, 7, 6, 5, (*seed >> 16) as u8] } } else { RHop { flags: 0, exp: 0, ing: 0, eg: 0, mac: [0; 6] } };
            (2, RPath::OneHop { info, hops: [h0, h1] })
        }
        PathK::Std { lens, cons, at, seed } => {
            let mut seg_len = [0u8; 3];
            let mut infos = vec![];
            let mut hops = vec![];
            let mut k = 0u16;
            for (i, l) in lens.iter().take(3).enumerate() {
                let l = (*l).clamp(1, 20);
                seg_len[i] = l;
                infos.push(RInfo { flags: *cons.get(i).unwrap_or(&true) as u8, rsv: 0, seg_id: (seed >> (i * 8)) as u16, ts: 1_700_000_000 + i as u32 });
                for _ in 0..l {
                    k += 1;
                    hops.push(RHop { flags: 0, exp: 63, ing: k, eg: k + 100, mac: [k as u8, (*seed >> 3) as u8, 3, 4, 5, 6] });
                }
            }
            let n = hops.len();
            let (ci, ch) = match at {
                Some((ci, ch)) => (*ci % 4, *ch % 64),
                None => ((infos.len() - 1) as u8, (n - 1) as u8),
            };
            (1, RPath::Std(RStd { curr_inf: ci, curr_hf: ch, rsv: 0, seg_len, infos, hops }))
        }
    }
}

fn scmp_bytes(h: &RHeader, ty: u8, code: u8, body: &[u8], bad: bool) -> Vec<u8> {
    let mut m = vec![ty, code, 0, 0];
    m.extend_from_slice(body);
    let mut c = rw::compute_checksum(h, rw::SCMP_PROTO, &m, 2);
    if bad {
        // three kinds of wrong value: off by one, the all-zero field ("no checksum"), all ones
        let good = c;
        c = match body.len() % 3 {
            0 => good.wrapping_add(1),
            1 => 0x0000,
            _ => 0xffff,
        };
        // 0x0000 and 0xffff are the same number in ones' complement arithmetic
        if c == good || (c == 0 && good == 0xffff) || (c == 0xffff && good == 0) {
            c = good ^ 0x0100;
        }
    }
    m[2..4].copy_from_slice(&c.to_be_bytes());
    m
}

const ERR_TYPES: [u8; 8] = [1, 2, 4, 5, 6, 3, 100, 127];

/// (bytes, header) of the packet as it arrives at the socket bound in LOCAL_IA
fn build(p: &Pkt) -> (Vec<u8>, RHeader, Vec<u8>) {
    let (stl, shost) = hostb(p.src_kind, 7);
    let (dtl, dhost) = hostb(p.dst_kind % 2, 1);
    let (pt, path) = build_path(&p.path);
    let plen = match &path {
        RPath::Empty => 0,
        RPath::OneHop { .. } => 32,
        RPath::Std(s) => 4 + 8 * s.infos.len() + 12 * s.hops.len(),
        _ => 0,
    };
    let mut h = RHeader {
        version: 0, tc: 0, flow: 3, next: rw::SCMP_PROTO, hdr_units: ((28 + dhost.len() + shost.len() + plen) / 4) as u8, payload_len: 0, path_type: pt,
        dst_tl: dtl, src_tl: stl, rsv: 0, dst_ia: LOCAL_IA, src_ia: p.src_ia, dst_host: dhost, src_host: shost, path,
    };
    let l4: Vec<u8> = match &p.l4 {
        L4::Udp { sport, dport, len } => {
            h.next = rw::UDP_PROTO;
            let data = fill(*len as usize, p.seed);
            let mut m = vec![];
            m.extend_from_slice(&sport.to_be_bytes());
            m.extend_from_slice(&dport.to_be_bytes());
            m.extend_from_slice(&((8 + data.len()) as u16).to_be_bytes());
            m.extend_from_slice(&[0, 0]);
            m.extend_from_slice(&data);
            let ck = rw::compute_checksum(&h, rw::UDP_PROTO, &m, 6);
            m[6..8].copy_from_slice(&ck.to_be_bytes());
            m
        }
        L4::EchoRequest { id, seq, len, bad_checksum } => {
            let mut b = vec![];
            b.extend_from_slice(&id.to_be_bytes());
            b.extend_from_slice(&seq.to_be_bytes());
            b.extend_from_slice(&fill(*len as usize, p.seed ^ 1));
            scmp_bytes(&h, 128, 0, &b, *bad_checksum)
        }
        L4::EchoReply { id, seq, len } => {
            let mut b = vec![];
            b.extend_from_slice(&id.to_be_bytes());
            b.extend_from_slice(&seq.to_be_bytes());
            b.extend_from_slice(&fill(*len as usize, p.seed ^ 2));
            scmp_bytes(&h, 129, 0, &b, false)
        }
        L4::Traceroute { reply } => scmp_bytes(&h, if *reply { 131 } else { 130 }, 0, &[0u8; 20], false),
        L4::Error { ty, code, quote, nested, bad_checksum } => {
            let ty = ERR_TYPES[(*ty % 8) as usize];
            let mut b = vec![0u8; rw::RScmp::fixed_len(ty).unwrap_or(4)];
            if *nested {
                // the quoted packet is itself an SCMP error packet (empty path, v4 hosts)
                let qh = RHeader { version: 0, tc: 0, flow: 1, next: rw::SCMP_PROTO, hdr_units: 9, payload_len: 8, path_type: 0, dst_tl: 0, src_tl: 0, rsv: 0, dst_ia: p.src_ia, src_ia: LOCAL_IA, dst_host: vec![10, 0, 0, 7], src_host: vec![10, 0, 0, 1], path: RPath::Empty };
                let mut q = rw::encode_header(&qh);
                q.extend_from_slice(&scmp_bytes(&qh, 1, 4, &[0u8; 4], false));
                b.extend_from_slice(&q);
            }
            b.extend_from_slice(&fill(*quote as usize, p.seed ^ 3));
            scmp_bytes(&h, ty, *code, &b, *bad_checksum)
        }
        L4::UnknownInfo { ty, len } => scmp_bytes(&h, 132u8.saturating_add(*ty % 120), 0, &fill(*len as usize, p.seed), false),
        L4::Truncated { ty, keep } => {
            let full = scmp_bytes(&h, [128u8, 129, 1, 4, 5, 6, 130][(*ty % 7) as usize], 0, &[0u8; 4], false);
            full[..(*keep as usize % 8).min(full.len())].to_vec()
        }
        L4::OtherProto { proto, len } => {
            h.next = if *proto == rw::SCMP_PROTO || *proto == rw::UDP_PROTO { 6 } else { *proto };
            fill(*len as usize, p.seed)
        }
    };
    h.payload_len = l4.len() as u16;
    let mut bytes = rw::encode_header(&h);
    bytes.extend_from_slice(&l4);
    (bytes, h, l4)
}

fn reversed(h: &RHeader) -> Option<Option<RPath>> {
    // Some(Some(p)) expected reply path; Some(None): reply path not judged; None: not reversible
    match &h.path {
        RPath::Empty => Some(Some(RPath::Empty)),
        RPath::Std(p) => {
            let b: usize = p.seg_len.iter().take_while(|l| **l != 0).map(|l| *l as usize).sum();
            let nseg = p.seg_len.iter().take_while(|l| **l != 0).count();
            if b != p.hops.len() || (p.curr_hf as usize) >= p.hops.len() || (p.curr_inf as usize) >= nseg {
                return None;
            }
            // pointers must be consistent
            let mut cum = 0usize;
            let mut seg_of = 0usize;
            for (i, l) in p.seg_len.iter().enumerate().take(nseg) {
                if (p.curr_hf as usize) < cum + *l as usize {
                    seg_of = i;
                    break;
                }
                cum += *l as usize;
            }
            if seg_of != p.curr_inf as usize {
                return Some(None);
            }
            Some(Some(RPath::Std(router::reverse(p))))
        }
        RPath::OneHop { .. } => Some(None),
        _ => Some(None),
    }
}

/// judges an echo reply against its request; `req` is the request's header and SCMP message
fn judge_reply(reply: &[u8], req_h: &RHeader, req_msg: &[u8], what: &str) -> CheckResult {
    let h = rw::decode_header(reply).map_err(|e| Fail::new(format!("{what}:reply-header-unparseable"), format!("{e:?}")))?;
    ensure!(h.next == rw::SCMP_PROTO, format!("{what}:reply-not-scmp"), "next {}", h.next);
    let m = &reply[h.header_len()..];
    ensure!(m.len() == h.payload_len as usize, format!("{what}:reply-payload-length-field"), "PayloadLen {} vs {}", h.payload_len, m.len());
    let s = rw::decode_scmp(m).ok_or_else(|| Fail::new(format!("{what}:reply-too-short"), String::new()))?;
    ensure!(s.ty == 129 && s.code == 0, format!("{what}:reply-is-not-an-echo-reply"), "type {} code {}", s.ty, s.code);
    ensure!(rw::checksum_verifies(&h, rw::SCMP_PROTO, m), format!("{what}:reply-checksum-invalid"), "len {}", m.len());
    ensure!(s.body == req_msg[4..], format!("{what}:identifier-sequence-or-data-differ"), "request {:?}.. reply {:?}..", &req_msg[4..req_msg.len().min(16)], &s.body[..s.body.len().min(12)]);
    ensure!(h.dst_ia == req_h.src_ia && h.dst_host == req_h.src_host && h.dst_tl == req_h.src_tl, format!("{what}:reply-not-addressed-to-requester"), "reply to {:x} {:?}, requester {:x} {:?}", h.dst_ia, h.dst_host, req_h.src_ia, req_h.src_host);
    ensure!(h.src_ia == req_h.dst_ia && h.src_host == req_h.dst_host && h.src_tl == req_h.dst_tl, format!("{what}:reply-source-is-not-the-requested-address"), "reply from {:x} {:?}", h.src_ia, h.src_host);
    if let Some(Some(want)) = reversed(req_h) {
        ensure!(h.path == want, format!("{what}:reply-path-is-not-the-reversed-request-path"), "reply path {:?}, expected {want:?}", h.path);
    }
    Ok(())
}

fn sut_accepts(bytes: &[u8]) -> bool {
    matches!(ScionRawPacketView::try_from_slice(bytes), Ok((_, rest)) if rest.is_empty())
}

// ---- echo handler ---------------------------------------------------------------------------------

fn check_echo(p: &Pkt, obs: &mut Obs) -> CheckResult {
    let (bytes, h, l4) = build(p);
    if !sut_accepts(&bytes) {
        obs.label("packet-not-parseable");
        return Ok(());
    }
    let reply = vcore::no_panic("DefaultEchoHandler::handle", || {
        let (view, _) = ScionRawPacketView::try_from_slice(&bytes).unwrap();
        DefaultEchoHandler::new().handle(view).map(|r| r.try_encode_to_vec().map_err(|e| e.to_string()))
    })?;
    let valid_request = matches!(p.l4, L4::EchoRequest { bad_checksum: false, .. });
    let rev = reversed(&h);
    match reply {
        None => {
            // a well-formed request over a reversible path must be answered
            ensure!(!(valid_request && matches!(rev, Some(Some(_)))), "echo:valid-request-not-answered", "{p:?}");
            obs.label(if valid_request { "request-unanswerable" } else { "no-reply" });
            if !valid_request && h.next == rw::SCMP_PROTO {
                obs.nontrivial(&format!("{p:?}"));
            }
        }
        Some(r) => {
            let kind = match &p.l4 {
                L4::EchoRequest { bad_checksum: true, .. } => "echo-request-with-wrong-checksum",
                L4::EchoRequest { .. } => "",
                L4::Error { .. } => "scmp-error",
                L4::Truncated { .. } => "truncated-scmp",
                _ => "other-message",
            };
            ensure!(valid_request, format!("echo:reply-triggered-by:{kind}"), "{p:?}");
            ensure!(rev.is_some(), "echo:reply-over-irreversible-path", "{p:?}");
            let r = r.map_err(|e| Fail::new("echo:reply-not-encodable", format!("{e}; {p:?}")))?;
            judge_reply(&r, &h, &l4, "echo")?;
            obs.label("echo-answered");
            obs.nontrivial(&format!("{p:?}"));
        }
    }
    Ok(())
}

// ---- socket receive loop ------------------------------------------------------------------------------

#[derive(Clone, Debug, Serialize, Deserialize)]
struct SockCase {
    pkts: Vec<Pkt>,
    with_echo: bool,
    with_path: bool,
    buf: u16,
    /// registered SCMP error receivers (1..=4) and how many of the first ones are dropped again
    /// before anything is received
    #[serde(default)]
    receivers: u8,
    #[serde(default)]
    dropped: u8,
}

fn err_fields(e: &ScmpErrorMessage) -> (u8, u8, usize) {
    match e {
        ScmpErrorMessage::DestinationUnreachable(m) => (1, u8::from(m.code), m.get_offending_packet().len()),
        ScmpErrorMessage::PacketTooBig(m) => (2, 0, m.get_offending_packet().len()),
        ScmpErrorMessage::ParameterProblem(m) => (4, u8::from(m.code), m.get_offending_packet().len()),
        ScmpErrorMessage::ExternalInterfaceDown(m) => (5, 0, m.get_offending_packet().len()),
        ScmpErrorMessage::InternalConnectivityDown(m) => (6, 0, m.get_offending_packet().len()),
    }
}

fn check_sock(c: &SockCase, obs: &mut Obs) -> CheckResult {
    let mut rx = vec![];
    let mut built = vec![];
    for p in &c.pkts {
        let (bytes, h, l4) = build(p);
        // the underlay contract: only packets that decode are handed to the socket
        if !sut_accepts(&bytes) {
            continue;
        }
        rx.push(bytes.clone());
        built.push((p.clone(), bytes, h, l4));
    }
    let local = ScionSocketIpAddr::new(IsdAsn(LOCAL_IA), IpAddr::from([10, 0, 0, 1]), 5001);
    let nrecv = (c.receivers as usize).clamp(1, 4);
    let ndrop = (c.dropped as usize).min(nrecv - 1);
    let (sock, mem, logs) = hook::udp_socket_with_receivers(local, rx, c.with_echo, nrecv, ndrop);
    let log = logs[0].clone();
    let rt = tokio::runtime::Builder::new_current_thread().build().map_err(|e| Fail::new("harness:tokio", e.to_string()))?;
    let cap = (c.buf as usize).max(1);
    let got: Vec<(usize, Vec<u8>, String, Option<Vec<u8>>)> = vcore::no_panic("PathUnawareUdpScionSocket::recv_from", || {
        rt.block_on(async {
            let mut out = vec![];
            let mut buf = vec![0u8; cap];
            loop {
                if c.with_path {
                    match sock.recv_from_with_path(&mut buf).await {
                        Ok((n, src, path)) => out.push((n, buf[..n.min(cap)].to_vec(), src.to_string(), Some(path.dp_path().as_slice().to_vec()))),
                        Err(_) => break,
                    }
                } else {
                    match sock.recv_from(&mut buf).await {
                        Ok((n, src)) => out.push((n, buf[..n.min(cap)].to_vec(), src.to_string(), None)),
                        Err(_) => break,
                    }
                }
            }
            out
        })
    })?;
    ensure!(mem.pending() == 0, "socket:receive-loop-stopped-early", "{} packets left in the underlay", mem.pending());
    // expected
    let mut want_dgrams = vec![];
    let mut want_errors = vec![];
    let mut want_replies = vec![];
    for (p, _bytes, h, l4) in &built {
        match &p.l4 {
            L4::Udp { len, .. } if p.src_kind % 3 != 2 => {
                let data = &l4[8..];
                debug_assert_eq!(data.len(), *len as usize);
                want_dgrams.push((data.to_vec(), h.clone(), u16::from_be_bytes([l4[0], l4[1]])));
            }
            L4::Error { ty, bad_checksum: false, .. } if matches!(ERR_TYPES[(*ty % 8) as usize], 1 | 2 | 4 | 5 | 6) => want_errors.push((ERR_TYPES[(*ty % 8) as usize], l4.clone(), h.clone())),
            L4::EchoRequest { bad_checksum: false, .. } if c.with_echo && reversed(h).is_some() => want_replies.push((h.clone(), l4.clone(), matches!(reversed(h), Some(Some(_))))),
            _ => {}
        }
    }
    obs.evals(built.len() as u64);
    let desc = || format!("{} packets: {:?}", built.len(), built.iter().map(|b| format!("{:?}", b.0.l4)).collect::<Vec<_>>());
    // datagrams: exactly those, in order, intact
    ensure!(got.len() == want_dgrams.len(), "socket:datagram-count-differs", "application received {} datagrams, {} were sent; {}", got.len(), want_dgrams.len(), desc());
    for (i, ((n, data, src, path), (wdata, wh, wport))) in got.iter().zip(want_dgrams.iter()).enumerate() {
        ensure!(*n == wdata.len(), "socket:datagram-length-differs", "datagram {i}: reported {n} bytes, sent {}", wdata.len());
        let k = wdata.len().min(cap);
        ensure!(data[..k.min(data.len())] == wdata[..k], "socket:datagram-payload-differs", "datagram {i}");
        let want_src = {
            let ia = IsdAsn(wh.src_ia);
            let ip: IpAddr = if wh.src_host.len() == 4 { IpAddr::from([wh.src_host[0], wh.src_host[1], wh.src_host[2], wh.src_host[3]]) } else { let mut a = [0u8; 16]; a.copy_from_slice(&wh.src_host); IpAddr::from(a) };
            ScionSocketIpAddr::new(ia, ip, *wport).to_string()
        };
        ensure!(*src == want_src, "socket:datagram-sender-differs", "datagram {i}: sender {src}, expected {want_src}");
        if let Some(pb) = path {
            ensure!(*pb == wh.path_bytes(), "socket:datagram-path-differs", "datagram {i}: path bytes differ");
        }
    }
    // errors: every well-formed error of an assigned type reaches the receivers, in order
    let rep = log.reported();
    for (i, other) in logs.iter().enumerate().skip(1) {
        let o = other.reported();
        ensure!(o.len() == rep.len() && o.iter().zip(rep.iter()).all(|(a, b)| err_fields(&a.0) == err_fields(&b.0) && a.1 == b.1), "socket:receivers-see-different-errors", "{nrecv} receivers registered, {ndrop} dropped: surviving receiver 0 got {} errors, receiver {i} got {}", rep.len(), o.len());
    }
    let rep_f: Vec<(u8, usize)> = rep.iter().map(|(e, _)| { let f = err_fields(e); (f.0, f.2) }).collect();
    let want_f: Vec<(u8, usize)> = want_errors.iter().map(|(ty, l4, _)| (*ty, l4.len() - 4 - rw::RScmp::fixed_len(*ty).unwrap())).collect();
    // errors with a wrong checksum may or may not be reported: compare after removing them from
    // what was reported beyond the expected list (only count/ordering of the well-formed ones is claimed)
    let bad_ck_errors = built.iter().filter(|b| matches!(b.0.l4, L4::Error { bad_checksum: true, .. })).count();
    if bad_ck_errors == 0 {
        ensure!(rep_f == want_f, "socket:scmp-errors-reported-differ", "reported (type, quote length) {rep_f:?}, expected {want_f:?}; {}", desc());
        for ((_, pb), (_, _, wh)) in rep.iter().zip(want_errors.iter()) {
            ensure!(*pb == wh.path_bytes(), "socket:scmp-error-path-differs", "path handed to the receiver differs from the packet's path");
        }
    } else {
        ensure!(rep_f.len() >= want_f.len() && rep_f.len() <= want_f.len() + bad_ck_errors, "socket:scmp-errors-reported-differ", "reported {rep_f:?}, expected {want_f:?} (+ up to {bad_ck_errors} with wrong checksum)");
        obs.label("with-wrong-checksum-errors");
    }
    // replies: one per valid echo request when the echo handler is installed, nothing else
    // (requests over one-hop paths / inconsistent pointers may or may not be answerable)
    let sent = mem.sent();
    let mut si = 0usize;
    for (rh, rl4, must) in want_replies.iter() {
        match sent.get(si) {
            Some(r) if judge_reply(r, rh, rl4, "socket").is_ok() => si += 1,
            Some(r) if *must => {
                judge_reply(r, rh, rl4, "socket")?;
            }
            None if *must => return Err(Fail::new("socket:echo-request-not-answered", format!("socket sent {} packets; {}", sent.len(), desc()))),
            _ => {}
        }
    }
    ensure!(si == sent.len(), "socket:unexpected-reply-sent", "socket sent {} packets, {} are replies to well-formed echo requests; {}", sent.len(), si, desc());
    obs.label(format!("dgrams-{}", want_dgrams.len().min(3)));
    if !want_errors.is_empty() {
        obs.label("errors-reported");
        if ndrop > 0 {
            obs.label("errors-reported-after-receiver-dropped");
        }
    }
    if si > 0 {
        obs.label("echo-replied");
    }
    if !want_dgrams.is_empty() && (!want_errors.is_empty() || built.len() > want_dgrams.len()) {
        obs.nontrivial(&format!("{c:?}"));
    }
    Ok(())
}

// ---- generators -----------------------------------------------------------------------------------------

fn path_strategy() -> impl Strategy<Value = PathK> {
    prop_oneof![
        1 => Just(PathK::Empty),
        5 => (proptest::collection::vec(1u8..8, 1..=3), proptest::collection::vec(any::<bool>(), 3), prop_oneof![4 => Just(None), 1 => any::<(u8, u8)>().prop_map(Some)], any::<u64>()).prop_map(|(lens, cons, at, seed)| PathK::Std { lens, cons, at, seed }),
        1 => (proptest::collection::vec(18u8..=20, 3), proptest::collection::vec(any::<bool>(), 3), any::<u64>()).prop_map(|(lens, cons, seed)| PathK::Std { lens, cons, at: None, seed }),
        1 => (any::<u64>(), any::<bool>()).prop_map(|(seed, second_set)| PathK::OneHop { seed, second_set }),
    ]
}

fn l4_strategy(udp_weight: u32) -> impl Strategy<Value = L4> {
    let len = || prop_oneof![3 => 0u16..32, 2 => 32u16..1300, 1 => 1300u16..9000];
    prop_oneof![
        udp_weight => (any::<u16>(), any::<u16>(), len()).prop_map(|(sport, dport, len)| L4::Udp { sport, dport, len }),
        4 => (any::<u16>(), any::<u16>(), len(), prop_oneof![4 => Just(false), 1 => Just(true)]).prop_map(|(id, seq, len, bad_checksum)| L4::EchoRequest { id, seq, len, bad_checksum }),
        1 => (any::<u16>(), any::<u16>(), len()).prop_map(|(id, seq, len)| L4::EchoReply { id, seq, len }),
        1 => any::<bool>().prop_map(|reply| L4::Traceroute { reply }),
        5 => (any::<u8>(), any::<u8>(), 0u16..1200, any::<bool>(), prop_oneof![5 => Just(false), 1 => Just(true)]).prop_map(|(ty, code, quote, nested, bad_checksum)| L4::Error { ty, code, quote, nested, bad_checksum }),
        1 => (any::<u8>(), 0u16..64).prop_map(|(ty, len)| L4::UnknownInfo { ty, len }),
        2 => (any::<u8>(), any::<u8>()).prop_map(|(ty, keep)| L4::Truncated { ty, keep }),
        1 => (any::<u8>(), 0u16..64).prop_map(|(proto, len)| L4::OtherProto { proto, len }),
    ]
}

fn pkt_strategy(udp_weight: u32) -> impl Strategy<Value = Pkt> {
    (0u8..3, 0u8..2, prop_oneof![Just(LOCAL_IA), Just(0x0002_ff00_0000_0220u64), any::<u64>()], path_strategy(), l4_strategy(udp_weight), any::<u64>())
        .prop_map(|(src_kind, dst_kind, src_ia, path, l4, seed)| Pkt { src_kind, dst_kind, src_ia, path, l4, seed })
}

fn run(ctx: &Ctx) {
    let n = ctx.tier.pick(300_000, 6_000_000);
    ctx.run_prop("echo-handler", n, || pkt_strategy(1), check_echo);
    let n = ctx.tier.pick(100_000, 3_000_000);
    ctx.run_prop("socket-receive-loop", n, || (proptest::collection::vec(pkt_strategy(6), 1..12), any::<bool>(), any::<bool>(), prop_oneof![Just(65535u16), Just(2048), 1u16..64], 1u8..=4, 0u8..4).prop_map(|(pkts, with_echo, with_path, buf, receivers, dropped)| SockCase { pkts, with_echo, with_path, buf, receivers, dropped }), check_sock);
}

fn post(ctx: &Ctx) {
    ctx.require_label("echo-answered", 2000);
    ctx.require_label("no-reply", 5000);
    ctx.require_label("errors-reported", 1000);
    ctx.require_label("echo-replied", 500);
    ctx.require_label("errors-reported-after-receiver-dropped", 500);
}

fn main() {
    let _ = idx(0, 1);
    let subs = [
        Sub { name: "echo-handler", run, replay: |c, v| c.replay_case::<Pkt>("c14s", v, check_echo) },
        Sub { name: "socket-receive-loop", run: |_| {}, replay: |c, v| c.replay_case::<SockCase>("c14s", v, check_sock) },
    ];
    vcore::main(
        "C14",
        "part stack. Received packets are built by the reference encoder: source host v4/v6/service, empty / one-hop / standard paths (1-3 segments, 1-60 hop fields, pointers at the last hop as delivered or anywhere), payload = UDP, echo request (valid or wrong checksum), echo reply, traceroute, SCMP error of every assigned and three unassigned types (optionally quoting an SCMP error packet, optionally wrong checksum), unknown informational type, SCMP cut inside header/fixed part, other protocols. (1) DefaultEchoHandler::handle: a reply is produced IFF the packet is a well-formed echo request (valid checksum) over a reversible path; the reply, read by the reference decoder, is an echo reply with identical identifier, sequence number and data, a valid checksum, truthful PayloadLen, destination = requester address, source = requested address, path = reference reversal of the request's path. (2) The real PathUnawareUdpScionSocket over an in-memory underlay (verif-hooks) receives sequences of 1-11 such packets through recv_from / recv_from_with_path: the application gets exactly the UDP datagrams, in order, with length, payload, sender (and path); the registered ScmpErrorReceiver gets exactly the well-formed SCMP errors of assigned types, in order, with the packet's path; the socket sends exactly one echo reply per well-formed echo request when the echo handler is installed and nothing otherwise - in particular nothing for SCMP errors, truncated SCMP or wrong checksums. Non-trivial = SCMP packet that must not be answered / answered echo / datagrams interleaved with SCMP traffic.",
        &["SCMP errors with a wrong checksum may or may not be reported to receivers (not claimed)", "one-hop request paths: the reply's path bytes are not judged (C12 covers one-hop reversal)", "UDP datagrams from service-address sources are skipped by the socket (documented in its code) and not expected"],
        &subs,
        post,
    );
}
