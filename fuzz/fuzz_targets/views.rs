//! C02 (thorough-tier extension): coverage-guided search for inputs on which constructing or
//! using a view panics or touches memory outside the buffer (AddressSanitizer), with a
//! differential on the reported sizes against the reference decoder.
#![no_main]

use libfuzzer_sys::{fuzz_mutator, fuzz_target, fuzzer_mutate};
use refmodel::wire as rw;
use sciparse::{
    core::view::View,
    dataplane_path::{onehop::view::OneHopPathView, standard::view::StandardPathView},
    packet::view::ScionRawPacketView,
    payload::{scmp::view::ScmpPayloadView, udp::view::UdpDatagramView},
    util::fuzz::{packet_shape::bias_to_packet_shape, view_function_checks::packet::exec_every_view_function},
};

fuzz_target!(|data: &[u8]| {
    // exact-size heap allocation: ASan sees the true bounds of the buffer
    let mut buf: Box<[u8]> = data.to_vec().into_boxed_slice();
    let total = buf.len();
    if let Ok((view, rest)) = ScionRawPacketView::try_from_mut_slice(&mut buf) {
        let used = total - rest.len();
        let hl = view.header().header_len() as usize;
        let pl = view.header().payload_len() as usize;
        assert!(hl <= used && used <= total, "view of {used} bytes with header length {hl} in a {total}-byte buffer");
        assert!(view.as_slice().len() == used, "as_slice() has {} bytes, constructor consumed {used}", view.as_slice().len());
        assert!(view.payload().len() <= pl, "payload() longer than PayloadLen");
        // whatever sciparse accepts, the reference decoder reads the same header length
        if let Ok(h) = rw::decode_header(data) {
            assert!(h.header_len() == hl, "header length: sciparse {hl}, reference {}", h.header_len());
        }
        exec_every_view_function(view);
    }
    // the stand-alone views over the same bytes
    if let Ok((v, _)) = StandardPathView::try_from_slice(data) {
        let _ = (v.hop_field_count(), v.curr_hop_field_idx(), v.curr_info_field_idx(), v.expiration());
        for i in 0..v.hop_field_count() as usize + 1 {
            let _ = v.hop_field(i);
        }
    }
    if let Ok((v, _)) = OneHopPathView::try_from_slice(data) {
        let _ = (v.info_field().timestamp(), v.hop_fields()[1].mac(), v.expiration());
    }
    if let Ok((v, _)) = ScmpPayloadView::try_from_slice(data) {
        let _ = (v.message().is_error_like(), v.dst_port());
    }
    if let Ok((v, _)) = UdpDatagramView::try_from_slice(data) {
        let _ = (v.src_port(), v.dst_port(), v.payload().len());
    }
});

trait ErrLike {
    fn is_error_like(&self) -> bool;
}
impl ErrLike for sciparse::payload::scmp::view::ScmpMessageView<'_> {
    fn is_error_like(&self) -> bool {
        use sciparse::payload::scmp::view::ScmpMessageExt;
        self.is_error()
    }
}

fuzz_mutator!(|data: &mut [u8], size: usize, max_size: usize, seed: u32| {
    let new_size = fuzzer_mutate(data, size, max_size);
    // half of the inputs are re-shaped into packets (sciparse's own structure-aware fixup)
    if seed & 1 == 0 {
        bias_to_packet_shape(&mut data[..new_size]);
    }
    new_size
});
