//! C15 / C16 (thorough-tier extension): text parsers are total and parse(display(v)) == v.
#![no_main]

use std::{fmt::Display, str::FromStr};

use libfuzzer_sys::fuzz_target;
use refmodel::text as rt;
use sciparse::{
    address::{addr::ScionAddr, host_addr::ScionHostAddr, ip_socket_addr::ScionSocketIpAddr, socket_addr::ScionSocketAddr},
    identifier::{asn::Asn, isd::Isd, isd_asn::IsdAsn},
    path::policy::{acl::AclPolicy, hop_pattern::HopPatternPolicy},
};

fn rt_check<T: FromStr + Display + PartialEq>(s: &str, what: &str) -> bool {
    match s.parse::<T>() {
        Ok(v) => {
            let shown = v.to_string();
            match shown.parse::<T>() {
                Ok(v2) => assert!(v2 == v, "{what}: parse(display(v)) != v for {s:?} (displayed {shown:?})"),
                Err(_) => panic!("{what}: displayed form {shown:?} of accepted input {s:?} does not parse"),
            }
            true
        }
        Err(_) => false,
    }
}

fuzz_target!(|data: &[u8]| {
    let Ok(s) = std::str::from_utf8(data) else { return };
    rt_check::<Isd>(s, "Isd");
    rt_check::<Asn>(s, "Asn");
    let ia = rt_check::<IsdAsn>(s, "IsdAsn");
    assert!(ia == rt::isd_asn(s).is_some(), "IsdAsn acceptance differs from the reference grammar for {s:?}");
    rt_check::<ScionHostAddr>(s, "ScionHostAddr");
    rt_check::<ScionAddr>(s, "ScionAddr");
    rt_check::<ScionSocketAddr>(s, "ScionSocketAddr");
    rt_check::<ScionSocketIpAddr>(s, "ScionSocketIpAddr");
    if s.len() <= 200 {
        if let Ok(p) = HopPatternPolicy::parse(s) {
            let _ = p.matches(&[]);
        }
        let _ = AclPolicy::from_str(s);
    }
});
