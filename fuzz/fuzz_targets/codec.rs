//! C03 (thorough-tier extension): every packet sciparse decodes must survive
//! decode -> model -> encode -> decode unchanged, the re-encoding must be read identically by the
//! reference decoder, and its UDP/SCMP checksum must verify.
#![no_main]

use libfuzzer_sys::{fuzz_mutator, fuzz_target, fuzzer_mutate};
use refmodel::wire as rw;
use sciparse::{
    core::{convert::TryFromView, encode::WireEncode},
    packet::model::{ScionRawPacket, ScionScmpPacket, ScionUdpPacket},
    util::fuzz::packet_shape::bias_to_packet_shape,
};

fuzz_target!(|data: &[u8]| {
    let Ok((model, _rest)) = ScionRawPacket::try_from_slice(data) else { return };
    let Ok(bytes) = model.try_encode_to_vec() else { return };
    let (m2, rest) = ScionRawPacket::try_from_slice(&bytes).expect("re-encoded packet must decode");
    assert!(rest.is_empty(), "re-encoded packet leaves {} bytes", rest.len());
    assert!(m2 == model, "decode(encode(m)) != m");
    let h = rw::decode_header(&bytes).expect("reference decoder rejects a packet sciparse encoded");
    assert!(h.header_len() + h.payload_len as usize == bytes.len(), "HdrLen/PayloadLen do not add up to the packet length");
    assert!(h.reserved_zero(), "encoder set reserved bits");
    // typed decoding and re-encoding: checksums verify, SCMP errors stay within 1232 bytes
    if h.next == rw::UDP_PROTO {
        if let Ok((m, _)) = ScionUdpPacket::try_from_slice(&bytes) {
            if let Ok(b) = m.try_encode_to_vec() {
                let hh = rw::decode_header(&b).expect("reference decoder rejects an encoded UDP packet");
                assert!(rw::checksum_verifies(&hh, rw::UDP_PROTO, &b[hh.header_len()..]), "UDP checksum of an encoded packet does not verify");
            }
        }
    } else if h.next == rw::SCMP_PROTO {
        if let Ok((m, _)) = ScionScmpPacket::try_from_slice(&bytes) {
            if let Ok(b) = m.try_encode_to_vec() {
                let hh = rw::decode_header(&b).expect("reference decoder rejects an encoded SCMP packet");
                assert!(rw::checksum_verifies(&hh, rw::SCMP_PROTO, &b[hh.header_len()..]), "SCMP checksum of an encoded packet does not verify");
                // error messages of the assigned types are built with a truncated quote; unassigned
                // types are carried as opaque data and not claimed
                if matches!(b[hh.header_len()], 1 | 2 | 4 | 5 | 6) {
                    assert!(b.len() <= rw::SCMP_ERROR_MAX, "encoded SCMP error of {} bytes", b.len());
                }
                let (m3, _) = ScionScmpPacket::try_from_slice(&b).expect("re-encoded SCMP packet must decode");
                assert!(m3.try_encode_to_vec().ok().as_deref() == Some(&b[..]), "SCMP decode -> encode is not stable");
            }
        }
    }
});

fuzz_mutator!(|data: &mut [u8], size: usize, max_size: usize, seed: u32| {
    let new_size = fuzzer_mutate(data, size, max_size);
    if seed & 3 != 0 {
        bias_to_packet_shape(&mut data[..new_size]);
    }
    new_size
});
