#!/usr/bin/env python3
import json, os, subprocess, sys, time, glob
SE='/var/tmp/se'
REPO=SE+'/repo'
VERIF=SE+'/verif'
out_path=SE+'/results.json'
res=json.load(open(out_path)) if os.path.exists(out_path) else {}
ids=sys.argv[1:] or sorted(os.path.basename(p) for p in glob.glob('/verif/seeded/C*'))
env=dict(os.environ); env['CARGO_NET_OFFLINE']='true'
def sh(cmd, cwd=None, e=None, timeout=3600):
    r=subprocess.run(cmd, cwd=cwd, env=e or env, stdout=subprocess.PIPE, stderr=subprocess.STDOUT, text=True, errors='replace', timeout=timeout)
    return r.returncode, r.stdout
for sid in ids:
    if sid in res and res[sid].get('done') and '--redo' not in os.environ.get('SE_FLAGS',''):
        continue
    prop=sid.split('-')[0]
    patch=f'/verif/seeded/{sid}/patch.diff'
    sh(['git','reset','-q','--hard','HEAD'], cwd=REPO)
    sh(['git','clean','-fdq','crates'], cwd=REPO)
    rc,o=sh(['git','apply',patch], cwd=REPO)
    if rc!=0:
        rc,o=sh(['git','apply','--3way',patch], cwd=REPO)
    if rc!=0:
        res[sid]={'done':True,'applied':False,'msg':o[-500:]}
        json.dump(res,open(out_path,'w'),indent=1); continue
    t0=time.time()
    e=dict(env); e['VERIF_SEED']=os.environ.get('SE_SEED','0')
    if os.environ.get('SE_FUZZ')!='1': e['VERIF_NO_FUZZ']='1'
    try:
        rc,o=sh([VERIF+'/check',prop], cwd=VERIF, e=e, timeout=5400)
    except subprocess.TimeoutExpired:
        rc,o=99,'timeout'
    sigs=sorted(set(l.strip()[len('signature: '):] for l in o.splitlines() if l.strip().startswith('signature: ')))
    nviol=sum(1 for l in o.splitlines() if l.startswith('VIOLATION'))
    res[sid]={'done':True,'applied':True,'exit':rc,'violations':nviol,'signatures':sigs[:12],'wall':round(time.time()-t0),'tail':o[-600:] if rc not in (0,1) else ''}
    json.dump(res,open(out_path,'w'),indent=1)
    print(sid, rc, nviol, sigs[:3], flush=True)
    sh(['git','reset','-q','--hard','HEAD'], cwd=REPO)
    sh(['git','clean','-fdq','crates'], cwd=REPO)
print('ALL DONE')
