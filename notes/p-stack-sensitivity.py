#!/usr/bin/env python3
"""Plant one mutant at a time in /var/tmp/pstack-wt, build the copied harness, run the checks."""
import os, subprocess, sys, shutil, time

WT = "/var/tmp/pstack-wt"
H = "/var/tmp/pstack-h"
TGT = "/var/tmp/pstack-target"
PS = WT + "/crates/scion-stack/src/path/manager/pathset.rs"
MG = WT + "/crates/scion-stack/src/path/manager.rs"
IS = WT + "/crates/scion-stack/src/path/manager/issues.rs"
PO = WT + "/crates/scion-stack/src/path/strategy/policy.rs"
BO = WT + "/crates/libs/scion-sdk-utils/src/backoff.rs"

MUTANTS = {
    # ---- C05
    "c05-filter-skipped-when-cache-empty": ("c05", PS,
        "        paths.retain(|p| manager.0.path_strategy.predicate(p));\n",
        "        if !self.internal.cached_paths.is_empty() {\n            paths.retain(|p| manager.0.path_strategy.predicate(p));\n        }\n"),
    "c05-policy-error-means-allowed": ("c05", PO,
        ".unwrap_or(false) // If the policy cannot be evaluated, the path is not allowed",
        ".unwrap_or(true) // If the policy cannot be evaluated, the path is not allowed"),
    "c05-refresh-of-cached-path-bypasses-filter": ("c05", PS,
        "        paths.retain(|p| manager.0.path_strategy.predicate(p));\n",
        "        paths.retain(|p| {\n            manager.0.path_strategy.predicate(p)\n                || self.internal.cached_paths.iter().any(|c| c.path.fingerprint() == p.fingerprint())\n        });\n"),
    # ---- C06
    "c06-merge-target-plus-one": ("c06", PS,
        "    while kept_existing + kept_new < target_path_count {",
        "    while kept_existing + kept_new < target_path_count + 1 {"),
    "c06-zero-time-left-is-valid": ("c06", PS,
        "        Ok(time_left) if time_left == Duration::from_secs(0) => ExpiryState::Expired,",
        "        Ok(time_left) if time_left == Duration::from_secs(0) => ExpiryState::Valid,"),
    "c06-min-refetch-delay-not-applied": ("c06", PS,
        "                // But at least after min refetch delay\n                .max(now + self.config.min_refetch_delay);",
        "                // But at least after min refetch delay\n                ;"),
    "c06-backoff-ceiling-ignored": ("c06", BO,
        "Duration::from_secs_f32(backoff.min(self.config.maximum_delay_secs))",
        "Duration::from_secs_f32(backoff.min(self.config.maximum_delay_secs * 4.0))"),
    "c06-failed-attempts-not-reset": ("c06", PS,
        "                self.internal.failed_attempts = 0;\n",
        "                self.internal.failed_attempts = self.internal.failed_attempts.saturating_sub(1);\n"),
    # ---- C07
    "c07-interface-target-ignores-egress": ("c07", IS,
        "                    return iter\n                        .next()\n                        .is_some_and(|egress| &egress.interface.id == egress_filter);",
        "                    return iter.next().is_some();"),
    "c07-threshold-compared-with-less": ("c07", PS,
        "                if diff > self.config.path_swap_score_threshold {",
        "                if diff < self.config.path_swap_score_threshold {"),
    "c07-penalty-not-applied-to-active": ("c07", PS,
        "                    res.total_paths_affected += 1;\n                    entry.reliability.update(issue.penalty, now);\n\n                    if Some(entry.path.fingerprint()) == active_path_fp {\n                        res.active_path_affected = true;\n                    }\n                }\n            }\n        } else if",
        "                    res.total_paths_affected += 1;\n                    if Some(entry.path.fingerprint()) != active_path_fp {\n                        entry.reliability.update(issue.penalty, now);\n                    }\n\n                    if Some(entry.path.fingerprint()) == active_path_fp {\n                        res.active_path_affected = true;\n                    }\n                }\n            }\n        } else if"),
    "c07-cached-issues-not-applied-to-new-paths": ("c07", PS,
        "                        issues_guard.apply_cached_issues(&mut entry, now);\n",
        "                        let _ = &issues_guard;\n"),
    "c07-rerank-skipped-on-issue": ("c07", PS,
        "            tracing::info!(\"Active path affected by path issues, re-evaluating\");\n            self.rerank(now, manager);\n",
        "            tracing::info!(\"Active path affected by path issues, re-evaluating\");\n"),
    "c07-first-hop-issue-matches-any-first-hop-of-as": ("c07", IS,
        "                    .is_some_and(|intf| intf.isd_asn == *isd_asn && intf.id == *egress_interface)",
        "                    .is_some_and(|intf| intf.isd_asn == *isd_asn && (intf.id == *egress_interface || *egress_interface > 0x7000))"),
}

def run(cmd, **kw):
    return subprocess.run(cmd, shell=True, text=True, stdout=subprocess.PIPE, stderr=subprocess.STDOUT, **kw)

def main():
    names = sys.argv[1:] or list(MUTANTS)
    env = dict(os.environ, CARGO_NET_OFFLINE="true", CARGO_TARGET_DIR=TGT, VERIF_SEED="0")
    for name in names:
        binary, path, old, new = MUTANTS[name]
        src = open(path).read()
        if src.count(old) != 1:
            print(f"## {name}: PATCH DOES NOT APPLY ({src.count(old)} matches)")
            continue
        shutil.copy(path, path + ".orig")
        open(path, "w").write(src.replace(old, new))
        try:
            t0 = time.time()
            b = run(f"cd {H} && cargo build --profile verif -p p-stack --bin {binary}", env=env)
            if b.returncode != 0:
                print(f"## {name}: BUILD FAILED\n" + b.stdout[-2500:])
                continue
            r = run(f"{TGT}/verif/{binary}", env=env)
            sigs = {}
            lines = r.stdout.splitlines()
            for i, l in enumerate(lines):
                if l.startswith("VIOLATION"):
                    sub = lines[i + 1].strip() if i + 1 < len(lines) else ""
                    sig = lines[i + 2].strip() if i + 2 < len(lines) else ""
                    sigs.setdefault((sub, sig), 0)
                    sigs[(sub, sig)] += 1
            print(f"## {name}: exit={r.returncode} build+run {time.time()-t0:.0f}s")
            for (sub, sig), n in sorted(sigs.items()):
                print(f"   {n}x {sub} | {sig}")
            if not sigs:
                print("   MISSED\n" + "\n".join(lines[-6:]))
        finally:
            shutil.move(path + ".orig", path)
    sys.stdout.flush()

main()
