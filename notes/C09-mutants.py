#!/usr/bin/env python3
"""apply.py <mutant> : plant one defect into /var/tmp/c09-wt (after resetting the two files)."""
import subprocess, sys
WT='/var/tmp/c09-wt'
SRV=WT+'/crates/snap/snap-tun/src/server.rs'
REG=WT+'/crates/snap/snap-control/src/server/identity_registry.rs'
import shutil
for f in (SRV,REG):
    shutil.copyfile(f.replace(WT,'/repo'), f)
def rep(path,a,b):
    s=open(path).read()
    assert s.count(a)==1,(path,a,s.count(a))
    open(path,'w').write(s.replace(a,b))
m=sys.argv[1]
if m=='none':
    pass
elif m=='m1-out-nocheck':
    # session data cached at handshake time, outgoing path no longer consults the authorisation layer
    rep(SRV,'active_tunnels: HashMap<SocketAddr, ActiveTunnel>,','active_tunnels: HashMap<SocketAddr, ActiveTunnel<T::SessionData>>,')
    rep(SRV,'struct ActiveTunnel {\n    peer_static: x25519::PublicKey,\n    tunn: Tunn,\n}','struct ActiveTunnel<S> {\n    peer_static: x25519::PublicKey,\n    tunn: Tunn,\n    session_data: Arc<S>,\n}')
    rep(SRV,'e.insert_entry(ActiveTunnel { peer_static, tunn });','e.insert_entry(ActiveTunnel { peer_static, tunn, session_data });')
    rep(SRV,'''        let Some(session_data) = self
            .authz
            .is_authorized(packet_now, active_tunnel.peer_static.as_bytes())
        else {
            tracing::debug!(remote = ?to, peer_static = ?active_tunnel.peer_static, "dropping outgoing packet for unauthorized peer");
            return None;
        };
        Some(Self::outgoing_packet_result(''','''        let session_data = active_tunnel.session_data.clone();
        Some(Self::outgoing_packet_result(''')
elif m=='m2-ge':
    rep(REG,'self.expires_at > now','self.expires_at >= now')
elif m=='m3-keep-prev-session':
    rep(REG,'''            && prev_identity != identity
        {
            self.sessions.remove(&prev_identity);
        }''','''            && prev_identity != identity
        {
            tracing::debug!("identity replaced");
        }''')
elif m=='m4-process-then-check':
    # incoming path: the tunnel state machine runs (and the queue is drained) before authorisation
    rep(SRV,'''                let Some(session_data) = self
                    .authz
                    .is_authorized(packet_now, active_tunnel.peer_static.as_bytes())
                else {
                    tracing::debug!(remote = ?from, peer_static = ?active_tunnel.peer_static, "rejected packet from unauthorized peer");
                    return HandleIncomingPacketResult::Result {
                        result: TunnResult::Err(WireGuardError::UnexpectedPacket),
                    };
                };
                let result = Self::handle_incoming_and_drain_queue(
                    send_to_network,
                    p,
                    &mut active_tunnel.tunn,
                );''','''                let result = Self::handle_incoming_and_drain_queue(
                    send_to_network,
                    p,
                    &mut active_tunnel.tunn,
                );
                let Some(session_data) = self
                    .authz
                    .is_authorized(packet_now, active_tunnel.peer_static.as_bytes())
                else {
                    tracing::debug!(remote = ?from, peer_static = ?active_tunnel.peer_static, "rejected packet from unauthorized peer");
                    return HandleIncomingPacketResult::Result {
                        result: TunnResult::Err(WireGuardError::UnexpectedPacket),
                    };
                };''')
elif m=='m5-keep-longer-expiry':
    # re-registration never shortens an existing authorisation
    rep(REG,'''        self.sessions
            .insert(identity, IdentityRegistration::new(expiry));''','''        let expiry = match self.sessions.get(&identity) {
            Some(old) if old.expires_at > expiry => old.expires_at,
            _ => expiry,
        };
        self.sessions
            .insert(identity, IdentityRegistration::new(expiry));''')
elif m=='m6-no-one-key-per-identity':
    rep(REG,'''        self.associations.retain(|existing_key, existing_identity| {
            *existing_identity != identity || existing_key == &key
        });
''','')
elif m=='m7-purge-inverted-assoc':
    # clean_expired forgets to drop the key association of an expired identity
    rep(REG,'''            self.associations
                .retain(|_, registered_identity| *registered_identity != identity);
''','')
elif m=='m8-in-check-handshake-only':
    # data packets of an established tunnel reuse the session resolved at handshake time
    rep(SRV,'active_tunnels: HashMap<SocketAddr, ActiveTunnel>,','active_tunnels: HashMap<SocketAddr, ActiveTunnel<T::SessionData>>,')
    rep(SRV,'struct ActiveTunnel {\n    peer_static: x25519::PublicKey,\n    tunn: Tunn,\n}','struct ActiveTunnel<S> {\n    peer_static: x25519::PublicKey,\n    tunn: Tunn,\n    session_data: Arc<S>,\n}')
    rep(SRV,'e.insert_entry(ActiveTunnel { peer_static, tunn });','e.insert_entry(ActiveTunnel { peer_static, tunn, session_data });')
    rep(SRV,'''                let Some(session_data) = self
                    .authz
                    .is_authorized(packet_now, active_tunnel.peer_static.as_bytes())
                else {
                    tracing::debug!(remote = ?from, peer_static = ?active_tunnel.peer_static, "rejected packet from unauthorized peer");
                    return HandleIncomingPacketResult::Result {
                        result: TunnResult::Err(WireGuardError::UnexpectedPacket),
                    };
                };
                let result''','''                let session_data = if matches!(p, WgKind::Data(_)) {
                    active_tunnel.session_data.clone()
                } else {
                    let Some(session_data) = self
                        .authz
                        .is_authorized(packet_now, active_tunnel.peer_static.as_bytes())
                    else {
                        return HandleIncomingPacketResult::Result {
                            result: TunnResult::Err(WireGuardError::UnexpectedPacket),
                        };
                    };
                    active_tunnel.session_data = session_data.clone();
                    session_data
                };
                let result''')
elif m=='m9-takeover-keeps-old-identity':
    # naive implementation of the TODO "socket occupied and tunnel.identity != peer.identity":
    # the new peer takes over the address but the tunnel keeps the old peer_static for authorisation
    rep(SRV,"""                let active_tunnel = occupied_entry.get_mut();
                // TODO(dsd): At the moment""","""                let active_tunnel = occupied_entry.get_mut();
                if let WgKind::HandshakeInit(wg_init) = &p
                    && let Ok(peer) =
                        parse_handshake_anon(&self.static_private, &self.static_public, wg_init)
                    && peer.peer_static_public != *active_tunnel.peer_static.as_bytes()
                {
                    active_tunnel.tunn = Tunn::new(
                        self.static_private.clone(),
                        x25519::PublicKey::from(peer.peer_static_public),
                        None,
                        None,
                        0,
                        self.rate_limiter.clone(),
                        from,
                    );
                }
                // TODO(dsd): At the moment""")
else:
    sys.exit('unknown mutant')
print('planted',m)
